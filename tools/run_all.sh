#!/bin/bash
# run every check at the given tier, sequentially; summary lines to stdout
tier="${1:-quick}"; shift || true
cd "$(dirname "$(readlink -f "$0")")/.." || exit 2
rc_all=0
for i in $(seq -w 1 20); do
  id="C$i"
  start=$(date +%s)
  out=$(./check "$id" --tier "$tier" "$@" 2>&1); rc=$?
  echo "$out" | grep -E "^VIOLATION|^  key=|^HARNESS-ERROR|tier=" | cut -c1-300
  echo "== $id rc=$rc $(( $(date +%s) - start ))s"
  [ $rc -ne 0 ] && rc_all=1
done
exit $rc_all
