#!/usr/bin/env python3
"""Write the prompts for a new round of independently seeded changes: tools/seed_prompts.py <round-dir> (e.g. /tmp/seed-out9).
Each sub-agent gets only the property text, its scratch worktree /tmp/wt-<ID> and the one-line summaries of the changes
earlier contributors made (so that the rounds do not repeat each other) -- nothing from /verif's checks."""
import glob
import json
import os
import sys

OUT = sys.argv[1]
HERE = os.path.dirname(os.path.dirname(os.path.abspath(__file__)))
TMPL = '''You are helping to evaluate a test framework for the Python library aiocoap (a CoAP implementation). Your job: produce ONE realistic, subtle code change ("seeded defect") to the library that BREAKS the semantic property quoted below, while the library still imports and its existing test suite still passes, plus a small demonstration program that fails with your change and passes without it.

Your private scratch copy of the library is the git worktree at /tmp/wt-{ID} (work ONLY there; the library package is /tmp/wt-{ID}/aiocoap). Write your results ONLY to {OUT}/{ID}/. Do NOT read, list or write anything under /verif or /repo, and do not run `git commit`, `git stash`, `git checkout` or any git command that changes refs or the index; `git diff` and `git status` inside /tmp/wt-{ID} are fine. There is no network.

THE PROPERTY (read it carefully; the text is also in {OUT}/{ID}/property.txt):

{ID} — "{STATEMENT}"
It is quantified over: {QUANT}
Relevant code: {FILES}.
{EXTRA}
IMPORTANT — BE DIFFERENT: earlier contributors have already produced these changes for the same property:
{TAKEN}
Yours must break the property through a DIFFERENT code site and a DIFFERENT triggering condition than ALL of them, and should violate a different clause of the property text if possible.

REQUIREMENTS FOR THE CHANGE
1. It must need something SPECIFIC to manifest — a particular interleaving or timing, a fault (loss, duplicate, error) at a particular point, a multi-step sequence of operations, an unusual input, or two cooperating code sites that each look fine alone. NOT something ordinary use or the existing tests would expose at once.
2. It must look like a plausible maintainer mistake, "optimisation" or refactoring slip; small (a few lines); no magic-constant sabotage unrelated to the protocol.
3. The library must still import, and the existing test suite must still pass. Other jobs on this machine use the same loopback CoAP ports, so ALWAYS run the tests in a private network namespace: from /tmp/wt-{ID} run  `unshare -n -r sh -c "ip link set lo up; /venv/bin/python -m pytest -q -p no:cacheprovider --timeout=900 {TESTS}"`  once BEFORE changing anything (baseline) and again with your change; the set of failing tests must be identical (on the unchanged tree the two tests named test_uri_parser in tests/test_client.py fail and OSCORE tests are skipped — expected).
4. Write a demonstration {OUT}/{ID}/demo.py: a standalone script run as `{PY} {OUT}/{ID}/demo.py <path-to-library-root>` (it must put that path first on sys.path and assert that `aiocoap.__file__` is under it) which exits 0 when the property holds for its scenario and exits 1 (printing what went wrong) when it is violated. It may use real loopback sockets/asyncio, monkeypatching of time/loop, or direct calls into library internals — whatever shows the violation reliably (no flakiness; keep it under ~60 s). Verify: exit 1 against /tmp/wt-{ID} (changed) and exit 0 against a pristine copy made by `cp -r /tmp/wt-{ID} /tmp/pristine-{ID} && cd /tmp/pristine-{ID} && patch -R -p1 < {OUT}/{ID}/patch.diff` (remove /tmp/pristine-{ID} afterwards).
5. Save the change as {OUT}/{ID}/patch.diff (output of `git -C /tmp/wt-{ID} diff`), applicable with `git apply` at the library root.
6. Write {OUT}/{ID}/meta.json with keys: "property", "summary" (one sentence: what the change does), "needs" (what specific input/sequence/interleaving/fault is needed for it to manifest), "files", "tests_run" (the pytest command and result summary lines without and with the change), "demo_result" (exit codes against changed and pristine).
Leave your change applied in /tmp/wt-{ID} when you finish. Your final answer should be a 5-line summary (what you changed, what it needs to manifest, test results, demo results).'''
TESTS = "tests/test_encoding.py tests/test_noncoap_client.py tests/test_server.py tests/test_client.py tests/test_blockwise.py tests/test_observe.py tests/test_protocol.py tests/test_uri_handling.py tests/test_doctest.py"
OSC = "OSCORE needs CPython 3.11 here: use /opt/veriftools/pyvenv/bin/python with `sys.path.insert(0, '/tmp/oscore-shims'); sys.path.append('/usr/lib/python3/dist-packages')` before `import aiocoap.oscore` (pure-Python cbor2/filelock stand-ins are in /tmp/oscore-shims; cryptography comes from the Debian package). The repository's OSCORE unit tests can be run the same way with `aiocoap.defaults.oscore_missing_modules = lambda: []` patched before importing tests.test_oscore (21 vector tests must keep passing with your change).\n"
for line in open(os.path.join(HERE, "properties.jsonl")):
    p = json.loads(line)
    ID = p["id"]
    tests = TESTS + {"C15": " tests/test_noncoap_tcp_client.py", "C19": " tests/test_fileserver.py", "C20": " tests/test_rd_examples.py", "C06": " tests/test_timeoutdict.py"}.get(ID, "")
    py = "/opt/veriftools/pyvenv/bin/python" if ID in ("C11", "C12", "C13") else "/venv/bin/python"
    taken = []
    for d in sorted(glob.glob(os.path.join(HERE, "seeded", ID + "*"))):
        try:
            m = json.load(open(os.path.join(d, "meta.json")))
        except Exception:
            continue
        taken.append('- "%s" (it needs: %s)' % (str(m.get("summary", "")).strip().replace('"', "'")[:600], str(m.get("needs", "")).strip().replace('"', "'")[:300]))
    os.makedirs(os.path.join(OUT, ID), exist_ok=True)
    txt = TMPL.format(ID=ID, OUT=OUT, STATEMENT=p["statement"], QUANT=p["quantifier"]["text"], FILES=", ".join(p["anchors"]["files"]), TESTS=tests, PY=py, EXTRA=OSC if ID in ("C11", "C12", "C13") else "", TAKEN="\n".join(taken))
    open(os.path.join(OUT, ID, "prompt.txt"), "w").write(txt)
    open(os.path.join(OUT, ID, "property.txt"), "w").write("%s — %s\n\n%s\n\nQuantified over: %s\n" % (ID, p["title"], p["statement"], p["quantifier"]["text"]))
print("prompts written to", OUT)
