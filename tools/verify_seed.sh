#!/bin/bash
# verify a sub-agent's seeded change: ./tools/verify_seed.sh <ID> [name]  (reads ${SEED_SRC:-/tmp/seed-out}/<ID>/, writes seeded/<name>/)
# 1. patch applies to a pristine copy of /repo  2. demo exits 0 on pristine, 1 on patched  3. selected repo tests unchanged
ID="$1"; NAME="${2:-$1}"; SRC="${SEED_SRC:-/tmp/seed-out}/$ID"
cd "$(dirname "$(readlink -f "$0")")/.." || exit 2
PY=/venv/bin/python; case "$ID" in C11|C12|C13) PY=/opt/veriftools/pyvenv/bin/python;; esac
tmp=$(mktemp -d /tmp/vp-vseed-XXXXXX)
rsync -a --exclude .git --exclude __pycache__ --exclude build --exclude doc /repo/ "$tmp/pristine/"
rsync -a "$tmp/pristine/" "$tmp/patched/"
(cd "$tmp/patched" && patch -s -p1 < "$SRC/patch.diff") || { echo "PATCH FAILS"; rm -rf "$tmp"; exit 1; }
timeout 300 $PY "$SRC/demo.py" "$tmp/pristine" > "$tmp/demo-pristine.log" 2>&1; rc0=$?
timeout 300 $PY "$SRC/demo.py" "$tmp/patched" > "$tmp/demo-patched.log" 2>&1; rc1=$?
echo "demo: pristine exit $rc0, patched exit $rc1"; tail -3 "$tmp/demo-patched.log"
TESTS="tests/test_encoding.py tests/test_noncoap_client.py tests/test_server.py tests/test_client.py tests/test_blockwise.py tests/test_observe.py tests/test_protocol.py tests/test_uri_handling.py tests/test_doctest.py tests/test_noncoap_tcp_client.py tests/test_fileserver.py tests/test_rd_examples.py tests/test_timeoutdict.py"
(cd "$tmp/patched" && unshare -n -r sh -c "ip link set lo up 2>/dev/null; timeout 900 /venv/bin/python -m pytest -q -p no:cacheprovider --timeout=600 $TESTS 2>&1 | tail -1") > "$tmp/tests.log" 2>&1
cat "$tmp/tests.log"
if [ $rc0 -eq 0 ] && [ $rc1 -eq 1 ]; then
  mkdir -p "seeded/$NAME"; cp "$SRC/patch.diff" "$SRC/demo.py" "seeded/$NAME/"
  python3 - "$SRC/meta.json" "seeded/$NAME/meta.json" "$ID" "$(cat $tmp/tests.log | tail -1)" <<'PY'
import json,sys
src,dst,ID,tests=sys.argv[1:5]
try: m=json.load(open(src))
except Exception: m={}
m["property"]=ID
m["verified_by_me"]={"demo_exit_pristine":0,"demo_exit_patched":1,"repo_tests_with_patch":tests,"how":"tools/verify_seed.sh: pristine/patched copies of /repo under /tmp, demo run on both, selected test files of the repository run on the patched copy in a private network namespace"}
json.dump(m,open(dst,"w"),indent=1)
PY
  echo "KEPT seeded/$NAME"
else echo "NOT KEPT"; fi
rm -rf "$tmp"
