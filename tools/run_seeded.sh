#!/bin/bash
# For every seeded/<ID>/patch.diff: apply it to a scratch copy of /repo, run that property's check (quick, then
# thorough if quick stayed green and SEEDED_THOROUGH is set) and record what was reported.  Writes seeded/RESULTS.md.  Scratch copies live
# under the system temp dir and are removed right away.
cd "$(dirname "$(readlink -f "$0")")/.." || exit 2
only="${1:-}"
out=seeded/RESULTS.md
tmpout=$(mktemp)
{
echo "# Seeded changes vs. checks"
echo
echo "| seeded change | property check | tier | result | seconds | first keys reported |"
echo "|---|---|---|---|---|---|"
} > "$tmpout"
for d in seeded/*/; do
  name=$(basename "$d")
  [ -f "$d/patch.diff" ] || continue
  [ -n "$only" ] && [[ "$name" != $only ]] && continue
  ids=$(python3 -c "import json,sys; m=json.load(open('$d/meta.json')); print(' '.join(m.get('checks') or [m['property']]))" 2>/dev/null || echo "${name:0:3}")
  tmp=$(mktemp -d /tmp/vp-seeded-XXXXXX)
  rsync -a --exclude .git --exclude __pycache__ --exclude build --exclude doc /repo/ "$tmp/repo/"
  if ! (cd "$tmp/repo" && patch -s -p1 < "$OLDPWD/$d/patch.diff"); then
    echo "| $name | $id | - | PATCH DOES NOT APPLY | - | |" >> "$tmpout"; rm -rf "$tmp"; continue
  fi
  tiers="quick"; [ -n "$SEEDED_THOROUGH" ] && tiers="quick thorough"
  detected=0
  for id in $ids; do
  [ $detected -eq 1 ] && break
  for tier in $tiers; do
    start=$(date +%s)
    # (a seeded defect can make cases very slow; this script is a development aid, so it gives up instead of waiting)
    if [ "$tier" = quick ]; then lim=600; else lim=${SEEDED_THOROUGH_LIMIT:-1800}; fi
    log=$(VERIF_REPO="$tmp/repo" timeout "$lim" ./check "$id" --tier "$tier" --no-evidence 2>&1); rc=$?
    secs=$(( $(date +%s) - start ))
    keys=$(echo "$log" | grep -E "^  key=" | head -3 | sed 's/^  key=//' | tr '\n' ' ')
    if [ $rc -eq 1 ]; then res="DETECTED"; elif [ $rc -eq 0 ]; then res="missed"; elif [ $rc -eq 124 ]; then res="gave up after ${lim}s"; else res="harness error (exit $rc)"; fi
    echo "| $name | $id | $tier | $res | $secs | $keys |" >> "$tmpout"
    echo "$name $id $tier $res ${secs}s $keys"
    [ $rc -eq 1 ] && detected=1
    [ $rc -ne 0 ] && break
  done
  done
  rm -rf "$tmp"
done
if [ -z "$only" ]; then mv "$tmpout" "$out"; else cat "$tmpout"; rm -f "$tmpout"; fi
rm -f replays/*.json
