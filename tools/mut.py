#!/usr/bin/env python3
"""Sensitivity helper: run a check against a scratch copy of /repo with one textual mutation.
usage: tools/mut.py <ID> <relative file> <old text> <new text> [extra check args...]
The copy lives under /tmp and is removed afterwards.  Exit status is that of the check (1 expected)."""
import os, shutil, subprocess, sys, tempfile
ID, rel, old, new = sys.argv[1:5]
extra = sys.argv[5:]
tmp = tempfile.mkdtemp(prefix="vp-mut-")
try:
    dst = os.path.join(tmp, "repo")
    shutil.copytree("/repo", dst, ignore=shutil.ignore_patterns(".git", "__pycache__", "build", "doc", "*.egg-info"))
    p = os.path.join(dst, rel)
    s = open(p).read()
    if s.count(old) < 1:
        print("MUTATION TEXT NOT FOUND"); sys.exit(3)
    open(p, "w").write(s.replace(old, new, 1))
    env = dict(os.environ, VERIF_REPO=dst)
    r = subprocess.run([os.path.join(os.path.dirname(os.path.dirname(os.path.abspath(__file__))), "check"), ID, "--no-evidence"] + extra, env=env)
    print("mutant exit status:", r.returncode)
    sys.exit(r.returncode)
finally:
    shutil.rmtree(tmp, ignore_errors=True)
