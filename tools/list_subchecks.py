#!/usr/bin/env python3
"""print a markdown table of the registered sub-checks (name, kind, quick/thorough budget) read from checks/cXX.py"""
import glob
import os
import re

here = os.path.dirname(os.path.dirname(os.path.abspath(__file__)))
print("| prop | sub-check | kind | quick | thorough |")
print("|---|---|---|---|---|")
for p in sorted(glob.glob(os.path.join(here, "checks", "c[0-9][0-9].py"))):
    ID = "C" + os.path.basename(p)[1:3]
    for line in open(p):
        m = re.search(r'Sub\("([a-z_0-9]+)"', line)
        if not m:
            continue
        name = m.group(1)
        if "external=" in line:
            kind, q, t = "Atheris (libFuzzer), oracle inside the target", "2 x 30k runs", "16 x 1.5M runs"
        elif "exhaustive=True" in line:
            kind, q, t = "complete enumeration", "all", "all"
        else:
            b = re.search(r'budget=\{"quick": (\d+), "thorough": (\d+)\}', line)
            kind, q, t = "Hypothesis", b.group(1), b.group(2)
        print("| %s | %s | %s | %s | %s |" % (ID, name, kind, q, t))
