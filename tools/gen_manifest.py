#!/usr/bin/env python3
"""Writes MANIFEST.json from the table below (kept in one place so that it stays valid)."""
import json, os, sys
HERE = os.path.dirname(os.path.dirname(os.path.abspath(__file__)))
sys.path.insert(0, HERE)
from tools.manifest_table import CHECKS, NOT_APPLICABLE, ENGINES, HOOK_COMMITS

checks = []
for c in CHECKS:
    checks.append({
        "property_id": c["id"],
        "quick_cmd": "./check %s --tier quick" % c["id"],
        "thorough_cmd": "./check %s --tier thorough" % c["id"],
        "evidence_file": "evidence/%s.json" % c["id"],
        "replay_cmd_template": "./check %s --replay {path}" % c["id"],
        "engine": c["engine"],
        "level_claimed": {"category": c["level"], "text": c["text"], "design_ref": "DESIGN.md section 3, " + c["id"]},
        "level_note": c["note"],
        "technique": c["technique"],
    })
m = {
    "version": 1,
    "setup_cmd": "./setup.sh",
    "hooks": {
        "guard": "AIOCOAP_VERIF",
        "enable": "no hooks are compiled in; checks import /repo's working tree directly (pure Python) with AIOCOAP_VERIF=1 exported by ./check",
        "baseline_off_cmd": "cd /repo && /venv/bin/python -m pytest -ra -q -p no:cacheprovider --timeout=900 --continue-on-collection-errors",
        "source_commits": HOOK_COMMITS,
        "add_only": True,
    },
    "engines": ENGINES,
    "checks": checks,
    "not_applicable": NOT_APPLICABLE,
    "notes": "All checks are property-based tests / fuzzers with explicit oracles (DESIGN.md). Exit 0 held, 1 VIOLATION, 2 harness error (also: a sub-check that exceeds its hard real-time limit). known_findings.json lists 23 genuine defects, all repaired by fix: commits in /repo (fixed entries suppress nothing). seeded/ holds 160 independently written breaking changes (8 rounds x 20 properties) with demonstrations; seeded/RESULTS.md shows the quick tier reporting 159 of them (tools/run_seeded.sh; five through the neighbouring check named in their meta.json; C12-h, a Group OSCORE change, is a recorded miss).",
}
with open(os.path.join(HERE, "MANIFEST.json"), "w") as f:
    json.dump(m, f, indent=1)
print("MANIFEST.json written with %d checks, %d not applicable" % (len(checks), len(NOT_APPLICABLE)))
