HOOK_COMMITS = []
ENGINES = [
    {"name": "runner", "path": "vlib/runner.py", "serves_properties": ["C01"], "kind_free_text": "Hypothesis driver: seeded workers, collect-then-shrink per root-cause key, plain-JSON replay, evidence"},
    {"name": "E1 refcodec", "path": "vlib/refcodec.py", "serves_properties": ["C01"], "kind_free_text": "independent RFC 7252 section 3 codec used as differential oracle and by the raw peers"},
]
ALL = ["C%02d" % i for i in range(1, 21)]
CHECKS = [
    {
        "id": "C01", "engine": "E1 refcodec + Hypothesis + exhaustive sweeps", "level": "exploration",
        "technique": "property-based differential testing against an independent RFC 7252 codec; round-trip; mutation fuzzing; exhaustive sweeps of extended fields and headers",
        "text": "Generated messages, RFC-well-formed datagrams and arbitrary/mutated byte strings are compared with an independently written RFC 7252 section 3 codec and with the round-trip law; extended-field values and all (first byte, code) headers are enumerated completely. Sampling cannot show absence, the finite sweeps are exhaustive.",
        "note": "trusted: vlib/refcodec.py as a reading of RFC 7252 s.3 (self-tested against RFC-derived byte strings), Hypothesis; option formats per the RFC tables",
    },
]
claimed = {c["id"] for c in CHECKS}
NOT_APPLICABLE = [{"property_id": i, "reason": "check not built yet in this session (planned, see DESIGN.md section 3); no claim is made"} for i in ALL if i not in claimed]
