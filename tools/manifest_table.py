HOOK_COMMITS = []
ENGINES = [
    {"name": "runner", "path": "vlib/runner.py", "serves_properties": ["C01"], "kind_free_text": "Hypothesis driver: seeded workers, collect-then-shrink per root-cause key, plain-JSON replay, evidence"},
    {"name": "E1 refcodec", "path": "vlib/refcodec.py", "serves_properties": ["C01","C02","C03"], "kind_free_text": "independent RFC 7252 section 3 codec used as differential oracle and by the raw peers"},
    {"name": "E2 simnet", "path": "vlib/simnet.py", "serves_properties": ["C02", "C03", "C04", "C05", "C06", "C07", "C08", "C09", "C10", "C14", "C18"], "kind_free_text": "virtual-clock asyncio loop + simulated datagram network under the real aiocoap stack; scripted raw peers; per-datagram fates"},
    {"name": "E3 ref8323", "path": "vlib/ref8323.py", "serves_properties": ["C15"], "kind_free_text": "independent RFC 8323 section 3.2 framer/serialiser"},
    {"name": "E5 OSCORE env", "path": "vlib/oscoreenv.py", "serves_properties": ["C11", "C12", "C13"], "kind_free_text": "CPython 3.11 + system cryptography + pure-Python cbor2/filelock shims; RFC 8613 vector self-test"},
]
ALL = ["C%02d" % i for i in range(1, 21)]
CHECKS = [
    {
        "id": "C01", "engine": "E1 refcodec + Hypothesis + exhaustive sweeps", "level": "exploration",
        "technique": "property-based differential testing against an independent RFC 7252 codec; round-trip; mutation fuzzing; exhaustive sweeps of extended fields and headers",
        "text": "Generated messages, RFC-well-formed datagrams and arbitrary/mutated byte strings are compared with an independently written RFC 7252 section 3 codec and with the round-trip law; extended-field values and all (first byte, code) headers are enumerated completely. Sampling cannot show absence, the finite sweeps are exhaustive.",
        "note": "trusted: vlib/refcodec.py as a reading of RFC 7252 s.3 (self-tested against RFC-derived byte strings), Hypothesis; option formats per the RFC tables",
    },
]
CHECKS += [
    {
        "id": "C02", "engine": "E2 simnet + Hypothesis", "level": "exploration",
        "technique": "property-based testing of generated network histories (loss/dup/delay/forgery/ICMP/shutdown) on a virtual-clock simulated net; history invariant over delivery-by-delivery snapshots of all response futures",
        "text": "Concurrent requests against scripted raw servers with generated datagram fates, forged responses, transport errors and shutdown; after every delivery the oracle decides from the wire and the futures whether exactly the matching outstanding request completed, and that unmatched responses are reset/ignored. Sampled histories, not exhaustive.",
        "note": "trusted: vlib/simnet.py (virtual clock, fake datagram transport), vlib/refcodec.py, Hypothesis; the real TokenManager/MessageManager/MessageInterfaceUDP6 run unmodified",
    },
    {
        "id": "C03", "engine": "E2 simnet + Hypothesis + finite grid", "level": "fault_enumeration",
        "technique": "exhaustive enumeration of a finite grid of loss/reply faults plus property-based sampling of tunings, reply plans and datagram fates on a virtual clock; timing oracle over wire timestamps",
        "text": "The retransmission schedule is read off the simulated wire with exact virtual timestamps: the grid (6 tunings x reply at copy k x 8 reply kinds x 3 delay positions x reply lost) is enumerated completely, continuous parameters are sampled.",
        "note": "trusted: vlib/simnet.py virtual clock (timer order and times are those of asyncio's scheduler), refcodec",
    },
]
CHECKS += [
    {
        "id": "C04", "engine": "E2 simnet + Hypothesis", "level": "exploration",
        "technique": "property-based testing of duplicate-arrival schedules on a virtual clock; oracle over handler-invocation log and byte comparison of repeated ACKs",
        "text": "Copies of request datagrams arrive at generated offsets (incl. both sides of EMPTY_ACK_DELAY and EXCHANGE_LIFETIME) from peers that collide on message IDs, also with the server's own MID counter; the oracle counts handler invocations per lifetime window and compares every reaction to a duplicate byte-for-byte with the ACK sent before. Sampled schedules.",
        "note": "trusted: vlib/simnet.py, refcodec, Hypothesis",
    },
    {
        "id": "C10", "engine": "E2 simnet + exhaustive table + Hypothesis", "level": "exploration",
        "technique": "exhaustive enumeration of the type x code x token x multicast x handler x No-Response reaction table plus property-based message sequences; RFC 7252 section 4 reaction-table oracle on wire timestamps",
        "text": "Every cell of the message-layer reaction table is exercised with a raw datagram against the real stack and the reaction read off the wire with virtual timestamps (exhaustive for the table); generated sequences check that rows do not interfere.",
        "note": "trusted: vlib/simnet.py, refcodec; No-Response suppression is only demanded for messages returned by handlers (documented mechanism), see DESIGN.md",
    },
    {
        "id": "C14", "engine": "E2 simnet + Hypothesis", "level": "exploration",
        "technique": "property-based testing of submission/ACK/RST/timeout/error interleavings on a virtual clock against a per-remote FIFO queue model",
        "text": "Generated submissions (client CON/NON requests and server-role CON separate responses) to several remotes with generated exchange outcomes; a queue model over exact wire timestamps decides non-overlap, FIFO order, prompt release and that nothing is forgotten. Sampled interleavings.",
        "note": "trusted: vlib/simnet.py, refcodec; give-up instants computed from the tuning with ACK_RANDOM_FACTOR=1",
    },
]
CHECKS += [
    {
        "id": "C09", "engine": "E2 simnet + Hypothesis", "level": "exploration",
        "technique": "property-based testing over generated handler outcomes (returns, renderable errors, arbitrary exceptions, non-message returns) with an expected-code table oracle and exactly-one-response count per token on the wire",
        "text": "Handler outcomes of every kind are generated for concurrent requests; the oracle reads the responses per request token off the simulated wire: exactly one, with the tabulated code, bare 5.00 without exception text for non-renderable failures, neighbours judged independently. Sampled combinations.",
        "note": "trusted: vlib/simnet.py, refcodec, Hypothesis",
    },
]
CHECKS += [
    {
        "id": "C18", "engine": "E2 simnet + fault enumeration + Hypothesis", "level": "fault_enumeration",
        "technique": "fault enumeration: shutdown injected at every event boundary (+-0.5 ms, midpoints) of generated busy scenarios on a virtual clock; post-shutdown silence / termination oracle",
        "text": "For every scenario (fixed: each activity alone and all together; generated: 1-5 activities) the uninterrupted run yields all instants at which anything happened; the scenario is re-run with shutdown() at each of them. The oracle checks termination of all futures/observations with library errors, handler cancellation, no transmission attempt or loop exception for 400 virtual seconds afterwards, LibraryShutdown for late requests, and an unaffected second context pair. Instants are exhaustive per scenario; scenarios are sampled.",
        "note": "trusted: vlib/simnet.py (a send attempt on the closed fake transport is what the real transport turns into an exception), refcodec",
    },
]
CHECKS += [
    {
        "id": "C07", "engine": "E2 simnet + Hypothesis", "level": "exploration",
        "technique": "property-based testing of notification arrival sequences (values, order, duplicates, virtual arrival times, terminators) in four API modes against a reference RFC 7641 section 3.4 freshness filter",
        "text": "Generated notification sequences (24-bit boundary values, wrap-around, gaps around 128 s, reordering/duplication through datagram fates, terminators) are fed to the real client; a reference freshness filter over the arrival sequence decides what must be handed to the application, exactly for callbacks and as an in-order subsequence ending in the freshest element for the lossy iterator; terminal signals are counted and typed. Sampled sequences.",
        "note": "trusted: vlib/simnet.py (aiocoap.protocol.time is the virtual clock), refcodec, the 6-line reference filter (self-tested on boundary values)",
    },
]
CHECKS += [
    {
        "id": "C08", "engine": "E2 simnet + Hypothesis", "level": "exploration",
        "technique": "property-based testing of registration / trigger / reaction / end-cause histories on a virtual clock against a registration-generation model; probe at quiescence",
        "text": "Generated histories of registrations, state-change bursts, observer reactions (ACK/RST/silence), re-registrations, explicit terminators, transport errors and shutdown; a model derives each registration's end cause and instant and the oracle checks Observe monotonicity, that no state changed after the end is sent, that a probe change at quiescence reaches exactly the live registrations, and the observer count. Sampled histories; 'eventually' is decided by quiescence of the finite scenario.",
        "note": "trusted: vlib/simnet.py, refcodec, the generation/ownership model in checks/c08.py (messages attributed by the instant their state changed)",
    },
]
CHECKS += [
    {
        "id": "C05", "engine": "E2 simnet + reference RFC 7959 server + Hypothesis", "level": "exploration",
        "technique": "property-based differential testing of the block-wise client against an independent RFC 7959 reference server (sizes, negotiations, mid-transfer reductions, loss, misbehaving-server mutations)",
        "text": "Body sizes around every block boundary, client and server size exponents, mid-transfer reductions in both directions, ETag policy, loss/duplication and nine server misbehaviours are generated; the reference server (written from the RFC, no aiocoap code) records the reassembled body and every inconsistency of the client's block options; results must be byte-identical or library errors. Sampled parameter combinations.",
        "note": "trusted: the reference server in checks/c05.py (self-tested on a hand-made exchange), vlib/simnet.py, refcodec",
    },
]
CHECKS += [
    {
        "id": "C06", "engine": "E2 simnet + reference model + exhaustive grid + Hypothesis", "level": "exploration",
        "technique": "model-based (stateful) property testing: histories of symbolic block requests from several clients with idle times on a virtual clock, interpreted against a reference model of spool and cache with three-zone expiry; exhaustive Block2 grid",
        "text": "Each step is chosen relative to the reference model's state for its key (next / restart / repeat / skip / earlier / another key's next block), the real server's answer is compared with the model after every step (handler invocations and bodies, 2.31 / 4.08 / 4.00, exact Block2 slices, never 5.xx), and state lifetime is checked in three zones around MAX_TRANSMIT_WAIT. The Block2 follow-up grid (length x sizes x block number) is enumerated completely; histories are sampled.",
        "note": "trusted: the reference model in checks/c06.py, vlib/simnet.py, refcodec",
    },
]
CHECKS += [
    {
        "id": "C15", "engine": "E3 stream harness + ref8323 + Hypothesis + exhaustive sweeps", "level": "exploration",
        "technique": "property-based differential and metamorphic testing: generated frame streams x generated chunkings (incl. byte-by-byte) through a real TcpConnection on a fake transport vs an independent RFC 8323 framer; byte-level mutation; exhaustive length codec sweep",
        "text": "Streams of frames (boundary body sizes, CSM position, signalling messages, malformed frames) are cut in generated ways and fed to the real connection object; a reference endpoint built on an independent framer decides the expected dispatch log, Pongs and Abort/close outcome, for each chunking. Serialisation is compared byte for byte; the length codec is enumerated; pending requests are checked against Release/Abort/connection loss with a real TokenManager. Sampled streams, exhaustive codec.",
        "note": "trusted: vlib/ref8323.py, vlib/refcodec.py, the fake stream transport; don't-care classes listed in the evidence assumptions",
    },
]
CHECKS += [
    {
        "id": "C16", "engine": "Hypothesis (grammar-based, constructive)", "level": "exploration",
        "technique": "grammar-based property testing: URIs built from components with an independent percent-encoder so that the RFC 7252 6.4 decomposition is known by construction; round-trip / fixed-point; injected rejection classes; mutation fuzzing for the exception class",
        "text": "URIs are generated from their decomposition (so the expected options are known without parsing), option sets are composed and decomposed again, each documented rejection class is injected into valid URIs, arbitrary and mutated strings are checked for the exception class and (when syntactically RFC 3986) for the round trip, and host/port join/split are round-tripped. Sampled inputs.",
        "note": "trusted: the independent percent-encoder / decoder and the RFC 3986 syntax regex in checks/c16.py, Python's ipaddress for IP literal normal forms",
    },
]
CHECKS += [
    {
        "id": "C17", "engine": "Hypothesis (stateful histories) + reference router", "level": "exploration",
        "technique": "model-based (stateful) property testing: histories of add/remove/request/discovery steps over a tree of Sites, compared after every step with a reference router, an independent link-format parser and a reference RFC 6690 filter",
        "text": "Symbolic histories are interpreted against a reference model while they run against real Site objects through Context.render_to_pipe; every request is checked for the handler that ran, the path it saw and the reconstructed URI, every /.well-known/core answer for the exact set of links and attributes with and without a filter. Sampled histories.",
        "note": "trusted: reference router/filter/link-format parser in checks/c17.py; stub remote instead of a transport",
    },
]
CHECKS += [
    {
        "id": "C19", "engine": "E6 file-system interposer + Hypothesis + exhaustive block grid", "level": "exploration",
        "technique": "property-based testing over hostile Uri-Path lists, methods and options against a sandboxed file server with a file-system call interposer (every touched path must resolve inside the root) and outside-world snapshots; exhaustive block-wise GET grid",
        "text": "Each case builds a fresh sandbox (root tree plus canaries outside), runs a generated request history through Context.render_to_pipe and checks, per request, every intercepted file-system path, the snapshot of everything outside the root (and inside when write is off) and the response class for hostile paths; file size x block size is enumerated completely for block-wise GET. Sampled histories.",
        "note": "trusted: the interposer in checks/c19.py (audit hook + os.stat wrappers; self-tested), os.path.realpath; symlinks inside the root are out of scope",
    },
]
CHECKS += [
    {
        "id": "C20", "engine": "Hypothesis (stateful histories) + reference directory model on a virtual clock", "level": "exploration",
        "technique": "model-based (stateful) property testing: histories of register / update / delete / expire / lookup steps on a virtual clock against a reference directory model that applies a write only when it was answered 2.xx",
        "text": "Generated histories run against a real StandaloneResourceDirectory; after every step endpoint lookup (also filtered), resource lookup and the registration resources are compared with the model's unexpired entries and their latest successful writes, locations are checked for stability and uniqueness, and expiry is driven on the virtual clock around lt+15 s. Sampled histories.",
        "note": "trusted: reference model and link-format parser (vlib/linkfmt.py), VirtualClockLoop; simple registration and proxying are not exercised",
    },
]
CHECKS += [
    {
        "id": "C11", "engine": "E5 OSCORE environment (py3.11 + shims) + Hypothesis", "level": "exploration",
        "technique": "property-based round-trip, hiding and must-fail testing: generated context pairs, messages and tamperings (bit flips, truncations, field replacements, cross-context verification) through the real protect / wire / unprotect call sequence",
        "text": "Context pairs over eight AEADs and all ID lengths protect generated requests and responses that travel as bytes; the oracle checks the round trip, the outer-field whitelist and absence of markers in the outer bytes, that a response does not verify for another request, and that every generated tampering or foreign context ends in a protection error and never in a message or another exception. Sampled inputs.",
        "note": "trusted: Debian python3-cryptography on CPython 3.11, the cbor2/filelock shims (validated by the RFC 8613 Appendix C vectors in the self-test), refcodec for tamper surgery, the independent option reader in checks/c11.py",
    },
]
CHECKS += [
    {
        "id": "C12", "engine": "E5 OSCORE environment + Hypothesis (symbolic operation sequences)", "level": "exploration",
        "technique": "model-based property testing of the replay window against a reference set model; generated arrival orders with repeats and forgeries over the wire, metamorphic relation (with vs without forgeries); Echo-recovery histories",
        "text": "The bare window runs generated operation sequences chosen relative to a set model and is compared on a whole neighbourhood after every step; a context pair exchanges generated request sequences delivered in generated orders with repeats and interleaved forgeries, where the three stated clauses are asserted and the fate of authentic messages must not depend on the forgeries; an uninitialised receiver is driven through challenge, fresh/wrong Echo and replays. Sampled histories.",
        "note": "trusted: as C11; the reference set model and the forgery surgery in checks/c12.py",
    },
]
CHECKS += [
    {
        "id": "C13", "engine": "E5 OSCORE environment + E6 effect interposer + Hypothesis", "level": "fault_enumeration",
        "technique": "fault enumeration: for generated protect/unprotect/restart histories every crash point between two intercepted file-system effects of aiocoap.oscore is injected (with and without a torn unsynced write), followed by reload; history invariant over all partial IVs ever issued and all requests ever accepted",
        "text": "Each generated history is run once uninterrupted to count file-system effects (mkstemp, write, flush, fsync, replace, unlink) and then once per (lifetime, effect) with a simulated crash there, reloading and continuing; the oracle checks global uniqueness and monotonicity of partial IVs, refusal at 2^40-1, that reloads never start at a used number nor fail, and that no request accepted earlier is accepted again after clean or unclean stops. Crash points are exhaustive per history; histories are sampled.",
        "note": "trusted: the interposer in checks/c13.py (process-level crash model; no power-loss metadata reordering), as C11 for the crypto stack",
    },
]
claimed = {c["id"] for c in CHECKS}
NOT_APPLICABLE = [{"property_id": i, "reason": "check not built yet in this session (planned, see DESIGN.md section 3); no claim is made"} for i in ALL if i not in claimed]
