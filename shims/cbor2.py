"""Pure-Python stand-in for the cbor2 package, covering the data model aiocoap.oscore serialises
(ints, byte/text strings, arrays, maps, true/false/null, floats never).  Deterministic shortest-length
encoding, as cbor2 produces for these types.  A *dependency* shim, not code under test; validated against
the RFC 8613 Appendix C vectors by the OSCORE checks' self-test."""

import struct


class CBORDecodeError(Exception):
    pass


class CBOREncodeError(Exception):
    pass


def _head(major, n):
    if n < 24:
        return bytes([(major << 5) | n])
    if n < 2**8:
        return bytes([(major << 5) | 24, n])
    if n < 2**16:
        return bytes([(major << 5) | 25]) + n.to_bytes(2, "big")
    if n < 2**32:
        return bytes([(major << 5) | 26]) + n.to_bytes(4, "big")
    if n < 2**64:
        return bytes([(major << 5) | 27]) + n.to_bytes(8, "big")
    raise CBOREncodeError("integer too large")


def dumps(obj, **kwargs):
    if obj is None:
        return b"\xf6"
    if obj is True:
        return b"\xf5"
    if obj is False:
        return b"\xf4"
    if isinstance(obj, int):
        return _head(0, obj) if obj >= 0 else _head(1, -1 - obj)
    if isinstance(obj, (bytes, bytearray, memoryview)):
        b = bytes(obj)
        return _head(2, len(b)) + b
    if isinstance(obj, str):
        b = obj.encode("utf-8")
        return _head(3, len(b)) + b
    if isinstance(obj, (list, tuple)):
        return _head(4, len(obj)) + b"".join(dumps(x) for x in obj)
    if isinstance(obj, dict):
        return _head(5, len(obj)) + b"".join(dumps(k) + dumps(v) for k, v in obj.items())
    if isinstance(obj, float):
        return b"\xfb" + struct.pack(">d", obj)
    raise CBOREncodeError("cannot encode %r" % type(obj))


def _load(data, pos):
    if pos >= len(data):
        raise CBORDecodeError("premature end")
    ib = data[pos]
    major, info = ib >> 5, ib & 31
    pos += 1
    if info < 24:
        n = info
    elif info in (24, 25, 26, 27):
        size = 1 << (info - 24)
        if pos + size > len(data):
            raise CBORDecodeError("premature end")
        n = int.from_bytes(data[pos : pos + size], "big")
        pos += size
    elif info == 31 and major in (2, 3, 4, 5):
        raise CBORDecodeError("indefinite length not supported")
    else:
        if major == 7 and info == 31:
            raise CBORDecodeError("unexpected break")
        raise CBORDecodeError("reserved additional information")
    if major == 0:
        return n, pos
    if major == 1:
        return -1 - n, pos
    if major in (2, 3):
        if pos + n > len(data):
            raise CBORDecodeError("premature end")
        raw = bytes(data[pos : pos + n])
        pos += n
        if major == 2:
            return raw, pos
        try:
            return raw.decode("utf-8"), pos
        except UnicodeDecodeError as e:
            raise CBORDecodeError(str(e))
    if major == 4:
        out = []
        for _ in range(n):
            v, pos = _load(data, pos)
            out.append(v)
        return out, pos
    if major == 5:
        out = {}
        for _ in range(n):
            k, pos = _load(data, pos)
            v, pos = _load(data, pos)
            try:
                out[k] = v
            except TypeError:
                out[repr(k)] = v
        return out, pos
    if major == 6:
        v, pos = _load(data, pos)
        return v, pos
    # major 7
    if info == 20:
        return False, pos
    if info == 21:
        return True, pos
    if info in (22, 23):
        return None, pos
    if info == 25:
        return struct.unpack(">e", n.to_bytes(2, "big"))[0], pos
    if info == 26:
        return struct.unpack(">f", n.to_bytes(4, "big"))[0], pos
    if info == 27:
        return struct.unpack(">d", n.to_bytes(8, "big"))[0], pos
    return n, pos


def loads(data, **kwargs):
    data = bytes(data)
    v, pos = _load(data, 0)
    if pos != len(data):
        raise CBORDecodeError("extra data")
    return v


def load(fp, **kwargs):
    return loads(fp.read())


def dump(obj, fp, **kwargs):
    fp.write(dumps(obj))
