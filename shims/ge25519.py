"""Pure-Python stand-in for the `ge25519` package (Edwards25519 group elements): only what
aiocoap.util.cryptography_additions.pk_to_curve25519 uses -- decoding a compressed point with the checks libsodium
makes (on the curve, not of small order, in the prime-order subgroup).  See DESIGN.md 2.8."""

from fe25519 import P, fe25519

D = (-121665 * pow(121666, P - 2, P)) % P
L = 2**252 + 27742317777372353535851937790883648493
SQRT_M1 = pow(2, (P - 1) // 4, P)


def _add(p, q):
    # extended twisted Edwards coordinates, a = -1
    x1, y1, z1, t1 = p
    x2, y2, z2, t2 = q
    a = (y1 - x1) * (y2 - x2) % P
    b = (y1 + x1) * (y2 + x2) % P
    c = 2 * D * t1 * t2 % P
    d = 2 * z1 * z2 % P
    e, f, g, h = b - a, d - c, d + c, b + a
    return (e * f % P, g * h % P, f * g % P, e * h % P)


def _mul(k, p):
    q = (0, 1, 1, 0)
    while k:
        if k & 1:
            q = _add(q, p)
        p = _add(p, p)
        k >>= 1
    return q


def _is_identity(p):
    x, y, z, _ = p
    return x % P == 0 and (y - z) % P == 0


def _decode(raw):
    raw = bytes(raw)
    y = int.from_bytes(raw, "little") & (2**255 - 1)
    sign = raw[31] >> 7
    if y >= P:
        return None
    u = (y * y - 1) % P
    v = (D * y * y + 1) % P
    x2 = u * pow(v, P - 2, P) % P
    x = pow(x2, (P + 3) // 8, P)
    if (x * x - x2) % P != 0:
        x = x * SQRT_M1 % P
    if (x * x - x2) % P != 0:
        return None
    if x == 0 and sign:
        return None
    if x & 1 != sign:
        x = P - x
    return (x, y, 1, x * y % P)


class ge25519_p3:
    def __init__(self, point):
        self.point = point
        self.root_check = 0 if point is not None else -1
        self.Y = fe25519(point[1]) if point is not None else fe25519(0)

    @classmethod
    def from_bytes(cls, raw):
        return cls(_decode(raw))

    def is_on_main_subgroup(self):
        return self.point is not None and _is_identity(_mul(L, self.point))


class ge25519:
    @staticmethod
    def has_small_order(raw):
        p = _decode(raw)
        if p is None:
            return 1
        return 1 if _is_identity(_mul(8, p)) else 0
