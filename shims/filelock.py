"""Minimal stand-in for the filelock package (fcntl.flock based), covering what aiocoap.oscore uses:
FileLock(path, timeout=...).acquire() / .release() / Timeout.  A dependency shim, not code under test."""

import fcntl
import os
import time


class Timeout(TimeoutError):
    pass


class FileLock:
    def __init__(self, lock_file, timeout=-1):
        self.lock_file = lock_file
        self.timeout = timeout
        self._fd = None

    @property
    def is_locked(self):
        return self._fd is not None

    def acquire(self, timeout=None, poll_interval=0.05):
        if self._fd is not None:
            return self
        if timeout is None:
            timeout = self.timeout
        fd = os.open(self.lock_file, os.O_RDWR | os.O_CREAT, 0o644)
        start = time.monotonic()
        while True:
            try:
                fcntl.flock(fd, fcntl.LOCK_EX | fcntl.LOCK_NB)
                self._fd = fd
                return self
            except OSError:
                if timeout >= 0 and time.monotonic() - start >= timeout:
                    os.close(fd)
                    raise Timeout(self.lock_file)
                time.sleep(poll_interval)

    def release(self, force=False):
        if self._fd is not None:
            try:
                fcntl.flock(self._fd, fcntl.LOCK_UN)
            finally:
                os.close(self._fd)
                self._fd = None

    def __enter__(self):
        return self.acquire()

    def __exit__(self, *exc):
        self.release()

    def __del__(self):
        try:
            self.release()
        except Exception:
            pass
