"""Pure-Python stand-in for the `fe25519` package (field elements modulo 2^255-19): only what
aiocoap.util.cryptography_additions.pk_to_curve25519 uses.  See DESIGN.md 2.8."""

P = 2**255 - 19


class fe25519:
    def __init__(self, n):
        self.n = n % P

    @classmethod
    def one(cls):
        return cls(1)

    def __add__(self, other):
        return fe25519(self.n + other.n)

    def __sub__(self, other):
        return fe25519(self.n - other.n)

    def __mul__(self, other):
        return fe25519(self.n * other.n)

    def invert(self):
        return fe25519(pow(self.n, P - 2, P))

    def to_bytes(self):
        return self.n.to_bytes(32, "little")
