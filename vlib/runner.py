"""Common runner for all checks: seeds, workers, Hypothesis discipline, evidence,
known findings, replay.  See DESIGN.md section 2.

A check module (checks/cXX.py) exposes

    ID, LEVEL
    def build(tier) -> CheckSpec

A CheckSpec is a list of Sub objects.  Each Sub has a generator (Hypothesis strategy or a
finite enumeration), and ``run(case) -> Outcome``: the scenario runner + oracle.  A case is
plain data (JSON with bytes as {"$b": hex}), so that it shrinks as one value and replays
without Hypothesis.
"""

import argparse
import hashlib
import json
import multiprocessing
import os
import sys
import time
import traceback
from collections import Counter

VERIF = os.path.dirname(os.path.dirname(os.path.abspath(__file__)))
REPO = os.environ.get("VERIF_REPO", "/repo")


# --------------------------------------------------------------------------------------
# plain-data cases


def _enc(o):
    if isinstance(o, (bytes, bytearray)):
        return {"$b": bytes(o).hex()}
    if isinstance(o, (list, tuple)):
        return [_enc(x) for x in o]
    if isinstance(o, dict):
        return {str(k): _enc(v) for k, v in o.items()}
    if isinstance(o, float) and (o != o or o in (float("inf"), float("-inf"))):
        return {"$f": repr(o)}
    if isinstance(o, (str, int, float, bool)) or o is None:
        return o
    if isinstance(o, (set, frozenset)):
        return [_enc(x) for x in sorted(o)]
    return {"$r": repr(o)}


def _dec(o):
    if isinstance(o, list):
        return [_dec(x) for x in o]
    if isinstance(o, dict):
        if set(o) == {"$b"}:
            return bytes.fromhex(o["$b"])
        if set(o) == {"$f"}:
            return float(o["$f"])
        return {k: _dec(v) for k, v in o.items()}
    return o


def to_json(case, **kw):
    return json.dumps(_enc(case), sort_keys=True, ensure_ascii=True, **kw)


def from_json(text):
    return _dec(json.loads(text))


def case_hash(case):
    return hashlib.sha1(to_json(case).encode()).digest()[:10]


def abridge(case, limit=900):
    """A JSON-able rendering of a case for the evidence file, shortened."""
    e = _enc(case)

    def short(o, depth=0):
        if isinstance(o, dict):
            if set(o) == {"$b"} and len(o["$b"]) > 80:
                return {"$b": o["$b"][:72] + "...", "len": len(o["$b"]) // 2}
            return {k: short(v, depth + 1) for k, v in o.items()}
        if isinstance(o, list):
            if len(o) > 14:
                return [short(x, depth + 1) for x in o[:12]] + ["... %d more" % (len(o) - 12)]
            return [short(x, depth + 1) for x in o]
        if isinstance(o, str) and len(o) > 120:
            return o[:110] + "...(%d chars)" % len(o)
        return o

    s = short(e)
    text = json.dumps(s, sort_keys=True)
    if len(text) > limit:
        return {"abridged_json": text[:limit] + "...", "full_len": len(text)}
    return s


# --------------------------------------------------------------------------------------


class V:
    """A violation record: stable key per root cause, human message."""

    __slots__ = ("key", "msg")

    def __init__(self, key, msg=""):
        self.key = key
        self.msg = str(msg)[:1500]

    def __repr__(self):
        return "V(%r, %r)" % (self.key, self.msg)


class Outcome:
    __slots__ = ("violations", "labels", "nontrivial", "info")

    def __init__(self, violations=(), labels=(), nontrivial=False, info=None):
        self.violations = list(violations)
        self.labels = list(labels)
        self.nontrivial = bool(nontrivial)
        self.info = info


class Sub:
    def __init__(
        self,
        name,
        run,
        strategy=None,
        cases=None,
        budget=None,
        exhaustive=False,
        max_wall=None,
        workers=None,
        note="",
        external=None,
    ):
        self.name = name
        self.run = run
        self.strategy = strategy  # callable -> hypothesis strategy
        self.cases = cases  # callable -> iterable of cases (finite enumeration)
        self.budget = budget or {"quick": 200, "thorough": 2000}
        self.exhaustive = exhaustive
        self.max_wall = max_wall or {"quick": 60, "thorough": 900}
        self.workers = workers or {"quick": 8, "thorough": 16}
        self.note = note
        self.external = external  # callable(tier, seed, known_keys) -> list of worker-style result dicts


class CheckSpec:
    def __init__(self, subs, rule, assumptions=(), selftest=None, extra=None):
        self.subs = subs
        self.rule = rule
        self.assumptions = list(assumptions)
        self.selftest = selftest
        self.extra = extra or {}


class HarnessError(Exception):
    pass


# --------------------------------------------------------------------------------------
# known findings


def load_known(prop):
    path = os.path.join(VERIF, "known_findings.json")
    if not os.path.exists(path):
        return []
    with open(path) as f:
        data = json.load(f)
    return [e for e in data.get("findings", []) if e.get("property") == prop]


def open_keys(known):
    return {e["key"]: e for e in known if e.get("status") == "open"}


# --------------------------------------------------------------------------------------
# worker


class _Stats:
    def __init__(self):
        self.evaluations = 0
        self.nontrivial = set()
        self.classes = Counter()
        self.samples = {}
        self.known_hits = Counter()
        self.skipped = 0
        self.info = Counter()

    def record(self, case, out):
        self.evaluations += (out.info or {}).get("evaluations", 1) if isinstance(out.info, dict) else 1
        if out.nontrivial:
            self.nontrivial.add(case_hash(case))
        for lab in out.labels:
            self.classes[lab] += 1
            if lab not in self.samples and len(self.samples) < 40:
                self.samples[lab] = abridge(case)
        if not out.labels and "_" not in self.samples:
            self.samples["_"] = abridge(case)
        if isinstance(out.info, dict):
            for k, v in out.info.items():
                if isinstance(v, (int, float)):
                    self.info[k] += v


class _Found(Exception):
    pass


class CaseTimeout(KeyboardInterrupt):
    """raised inside a case that exceeds the per-case real-time limit.  A KeyboardInterrupt subclass on purpose: asyncio's
    callback and task runners swallow every other BaseException into the loop's exception handler and carry on, while
    they let KeyboardInterrupt travel up out of run_forever()."""


def _guarded_run(sub, case, limit, stats):
    """sub.run(case) under a per-case real-time limit.  A case that does not come back within the limit is abandoned
    and counted as skipped: a time budget that runs out is 'inconclusive', never a violation.  (Cases take milliseconds
    to seconds; the limit only fires when something spins, which was seen once in thousands of worker-minutes: one
    worker sat in a single scenario at 100 % CPU and growing memory, and the same scenario ran normally in isolation.)"""
    import signal

    def on_alarm(signum, frame):
        raise CaseTimeout()

    try:
        old = signal.signal(signal.SIGALRM, on_alarm)
    except ValueError:  # not in the main thread
        return sub.run(case)
    signal.setitimer(signal.ITIMER_REAL, limit, 5.0)  # (again every 5 s, should a clean-up handler swallow the first one)
    try:
        return sub.run(case)
    except CaseTimeout:
        stats.skipped += 1
        stats.classes["case-abandoned-after-%ds" % int(limit)] += 1
        return None
    finally:
        signal.setitimer(signal.ITIMER_REAL, 0)
        signal.signal(signal.SIGALRM, old)


def _run_hyp(sub, seed_value, n, known, deadline, tier):
    import hypothesis
    from hypothesis import HealthCheck, Phase, given, settings

    stats = _Stats()
    failures = []  # (key, case, msg)
    tolerated = set(known)
    rounds = 0
    harness_error = None
    while rounds < 5:
        rounds += 1
        state = {"target": None, "best": None, "best_hash": None, "t_found": None}
        shrink_budget = 45 if tier == "quick" else 200
        case_limit = 240 if tier == "quick" else 480

        def body(case):
            now = time.monotonic()
            if state["target"] is None:
                if now > deadline:
                    stats.skipped += 1
                    return
            else:
                if now > state["t_found"] + shrink_budget and case_hash(case) != state["best_hash"]:
                    return
            out = _guarded_run(sub, case, case_limit, stats)
            if out is None:
                return
            if state["target"] is None:
                stats.record(case, out)
            bad = []
            for v in out.violations:
                if v.key in known:
                    if state["target"] is None:
                        stats.known_hits[v.key] += 1
                elif v.key not in tolerated:
                    bad.append(v)
            if bad:
                if state["target"] is None:
                    state["target"] = bad[0].key
                    state["t_found"] = now
                hit = [v for v in bad if v.key == state["target"]]
                if hit:
                    state["best"] = (case, hit[0])
                    state["best_hash"] = case_hash(case)
                    raise _Found(hit[0].key)

        test = given(sub.strategy())(body)
        test = settings(
            max_examples=max(1, n),
            database=None,
            deadline=None,
            derandomize=False,
            report_multiple_bugs=False,
            print_blob=False,
            suppress_health_check=[HealthCheck.too_slow, HealthCheck.data_too_large],
            phases=[Phase.generate, Phase.shrink],
        )(test)
        test = hypothesis.seed(seed_value * 7 + rounds)(test)
        try:
            test()
            break
        except _Found:
            case, v = state["best"]
            failures.append((v.key, case, v.msg))
            tolerated.add(v.key)
            n = max(20, n // 2)
            continue
        except hypothesis.errors.Flaky as e:
            if state["best"] is not None:
                case, v = state["best"]
                failures.append((v.key, case, v.msg + " [flaky under shrinking]"))
                tolerated.add(v.key)
                continue
            harness_error = "Flaky: %s" % e
            break
        except BaseException as e:  # health check, harness bug
            if isinstance(e, (KeyboardInterrupt, SystemExit)):
                raise
            harness_error = "".join(traceback.format_exception(type(e), e, e.__traceback__))[-4000:]
            break
    return stats, failures, harness_error


def _run_enum(sub, index, nworkers, known, deadline):
    stats = _Stats()
    failures = []
    seen_keys = set()
    harness_error = None
    complete = True
    try:
        for i, case in enumerate(sub.cases()):
            if i % nworkers != index:
                continue
            if time.monotonic() > deadline:
                complete = False
                stats.skipped += 1
                continue
            out = _guarded_run(sub, case, 600, stats)
            if out is None:
                complete = False
                continue
            stats.record(case, out)
            for v in out.violations:
                if v.key in known:
                    stats.known_hits[v.key] += 1
                elif v.key not in seen_keys:
                    seen_keys.add(v.key)
                    failures.append((v.key, case, v.msg))
    except BaseException as e:
        if isinstance(e, (KeyboardInterrupt, SystemExit)):
            raise
        harness_error = "".join(traceback.format_exception(type(e), e, e.__traceback__))[-4000:]
    return stats, failures, harness_error, complete


def _worker(args):
    (mod_name, tier, sub_index, windex, nworkers, seed_value, n, known, deadline_in) = args
    import importlib

    t0 = time.monotonic()
    try:
        import faulthandler
        import signal

        # `kill -USR1 <worker pid>` prints where a worker is (used to diagnose cases that do not return)
        faulthandler.register(signal.SIGUSR1, all_threads=True, chain=False)
        # a worker must not outlive the check that started it (PR_SET_PDEATHSIG = 1)
        import ctypes

        ctypes.CDLL("libc.so.6", use_errno=True).prctl(1, signal.SIGKILL)
    except Exception:
        pass
    try:
        mod = importlib.import_module(mod_name)
        spec = mod.build(tier)
        sub = spec.subs[sub_index]
        deadline = t0 + deadline_in
        complete = True
        if sub.strategy is not None:
            stats, failures, herr = _run_hyp(sub, seed_value * 1000 + windex, n, known, deadline, tier)
        else:
            stats, failures, herr, complete = _run_enum(sub, windex, nworkers, known, deadline)
    except BaseException as e:
        if isinstance(e, (KeyboardInterrupt, SystemExit)):
            raise
        return {
            "harness_error": "".join(traceback.format_exception(type(e), e, e.__traceback__))[-4000:]
        }
    return {
        "evaluations": stats.evaluations,
        "nontrivial": list(stats.nontrivial),
        "classes": dict(stats.classes),
        "samples": stats.samples,
        "known_hits": dict(stats.known_hits),
        "skipped": stats.skipped,
        "info": dict(stats.info),
        "failures": [(k, to_json(c), m) for (k, c, m) in failures],
        "harness_error": herr,
        "complete": complete,
        "wall": time.monotonic() - t0,
    }


# --------------------------------------------------------------------------------------
# main


def setup_repo_path():
    """Put the code under test first on sys.path and make sure it is what gets imported."""
    repo = os.path.abspath(REPO)
    if repo in sys.path:
        sys.path.remove(repo)
    sys.path.insert(0, repo)
    if VERIF not in sys.path:
        sys.path.insert(1, VERIF)
    import aiocoap

    path = os.path.abspath(aiocoap.__file__)
    if not path.startswith(repo + os.sep):
        raise HarnessError("aiocoap imported from %s, not from %s" % (path, repo))


def _replay_path(prop, subname, key, case_json):
    h = hashlib.sha1((key + case_json).encode()).hexdigest()[:10]
    safe = "".join(c if c.isalnum() else "_" for c in key)[:60]
    return os.path.join("replays", "%s-%s-%s-%s.json" % (prop, subname, safe, h))


def main(mod_name, argv=None):
    ap = argparse.ArgumentParser()
    ap.add_argument("--tier", default=os.environ.get("VERIF_TIER", "quick"))
    ap.add_argument("--replay")
    ap.add_argument("--selftest", action="store_true")
    ap.add_argument("--only", help="run only the named subcheck(s), comma separated")
    ap.add_argument("--scale", type=float, default=float(os.environ.get("VERIF_SCALE", "1")))
    ap.add_argument("--no-evidence", action="store_true")
    args = ap.parse_args(argv)
    tier = args.tier if args.tier in ("quick", "thorough") else "quick"
    try:
        seed_value = int(os.environ.get("VERIF_SEED", "1"))
    except ValueError:
        seed_value = 1

    os.chdir(VERIF)
    try:
        setup_repo_path()
        import importlib

        mod = importlib.import_module(mod_name)
        spec = mod.build(tier)
    except BaseException as e:
        if isinstance(e, (KeyboardInterrupt, SystemExit)):
            raise
        traceback.print_exc()
        print("HARNESS-ERROR: cannot set up check %s: %r" % (mod_name, e))
        return 2
    prop = mod.ID
    known = load_known(prop)
    okeys = open_keys(known)

    if args.selftest:
        try:
            if spec.selftest:
                spec.selftest()
            print("selftest %s ok" % prop)
            return 0
        except BaseException as e:
            if isinstance(e, (KeyboardInterrupt, SystemExit)):
                raise
            traceback.print_exc()
            print("HARNESS-ERROR: selftest of %s failed" % prop)
            return 2

    if args.replay:
        return replay(mod, spec, prop, args.replay, okeys)

    t0 = time.monotonic()
    for e in okeys.values():
        print("KNOWN-FINDING: property=%s %s" % (prop, e.get("what", e["key"])))

    # oracle self-tests (./check <ID> --selftest) are a development/setup step: they monkey-patch the code under test
    # to see the oracle fail, so their outcome depends on that code and must not turn a run into a harness error.

    only = set(args.only.split(",")) if args.only else None
    total_eval = 0
    nontrivial = set()
    classes = Counter()
    samples = []
    known_hits = Counter()
    info = Counter()
    violations = {}  # key -> (subname, case_json, msg)
    sub_reports = []
    harness_errors = []
    inconclusive = []
    ctx = multiprocessing.get_context("fork")
    for si, sub in enumerate(spec.subs):
        if only and sub.name not in only:
            continue
        W = min(sub.workers[tier], os.cpu_count() or 4)
        n_total = max(1, int(sub.budget[tier] * args.scale))
        if sub.strategy is not None and sub.external is None:
            W = max(1, min(W, n_total // 20 or 1))
        per = -(-n_total // W)
        jobs = [
            (mod_name, tier, si, w, W, seed_value, per, list(okeys), sub.max_wall[tier])
            for w in range(W)
        ]
        ts = time.monotonic()
        if sub.external is not None:
            try:
                results = sub.external(tier, seed_value, list(okeys))
            except BaseException as e:
                if isinstance(e, (KeyboardInterrupt, SystemExit)):
                    raise
                results = [{"harness_error": "".join(traceback.format_exception(type(e), e, e.__traceback__))[-3000:]}]
        elif W == 1:
            results = [_worker(jobs[0])]
        else:
            # hard limit in real time: the wall budget, plus what collect-then-shrink may add after it, plus slack.  A
            # worker that is still busy then is stuck in a case that does not return (or is far slower than anything
            # seen on the unchanged tree): that is reported as a harness error (exit 2), never as a pass.
            hard = sub.max_wall[tier] * 1.25 + 5 * ((45 if tier == "quick" else 200) + 60) + 300
            pool = ctx.Pool(W)
            try:
                asyncres = [pool.apply_async(_worker, (j,)) for j in jobs]
                t_end = time.monotonic() + hard
                results = []
                stuck = 0
                for ar in asyncres:
                    try:
                        results.append(ar.get(timeout=max(1.0, t_end - time.monotonic())))
                    except multiprocessing.TimeoutError:
                        stuck += 1
                if stuck:
                    results.append({"harness_error": "%d of %d workers of sub-check %s had not finished %.0f s after the start (wall budget %d s): a case does not return or runs far beyond its budget" % (stuck, W, sub.name, hard, sub.max_wall[tier])})
            finally:
                pool.terminate()
                pool.join()
        sub_eval = 0
        sub_nt = set()
        sub_skipped = 0
        complete = True
        for r in results:
            if r.get("harness_error"):
                harness_errors.append("%s/%s: %s" % (prop, sub.name, r["harness_error"]))
            if "evaluations" not in r:
                continue
            sub_eval += r["evaluations"]
            sub_nt.update(bytes(x) for x in r["nontrivial"])
            sub_skipped += r["skipped"]
            complete = complete and r.get("complete", True)
            for k, v in r["classes"].items():
                classes[sub.name + ":" + k] += v
            for k, v in r["known_hits"].items():
                known_hits[k] += v
            for k, v in r["info"].items():
                info[sub.name + ":" + k] += v
            for k, cj, m in r["failures"]:
                if k not in violations or len(cj) < len(violations[k][1]):
                    violations[k] = (sub.name, cj, m)
        got = set()
        for r in results:
            for lab, s in (r.get("samples") or {}).items():
                if lab not in got and len(got) < 6:
                    got.add(lab)
                    samples.append({"subcheck": sub.name, "class": lab, "case": s})
        total_eval += sub_eval
        nontrivial.update((sub.name.encode() + h) for h in sub_nt)
        if sub_skipped:
            inconclusive.append("%s: wall budget reached, %d generated cases skipped" % (sub.name, sub_skipped))
        sub_reports.append(
            {
                "name": sub.name,
                "kind": "atheris (coverage-guided)" if sub.external is not None else "hypothesis" if sub.strategy is not None else "enumeration",
                "evaluations": sub_eval,
                "distinct_nontrivial": len(sub_nt),
                "exhaustive": bool(sub.exhaustive and sub.strategy is None and complete and not only),
                "workers": W,
                "wall_s": round(time.monotonic() - ts, 2),
                "note": sub.note,
            }
        )
        print(
            "[%s] %-22s eval=%-7d nontrivial=%-7d wall=%.1fs%s"
            % (prop, sub.name, sub_eval, len(sub_nt), time.monotonic() - ts, " (budget hit)" if sub_skipped else "")
        )

    # report
    rc = 0
    os.makedirs(os.path.join(VERIF, "replays"), exist_ok=True)
    vio_list = []
    for key, (subname, cj, msg) in sorted(violations.items()):
        path = _replay_path(prop, subname, key, cj)
        with open(os.path.join(VERIF, path), "w") as f:
            json.dump(
                {"property": prop, "subcheck": subname, "key": key, "message": msg, "case": json.loads(cj)},
                f,
                indent=1,
                sort_keys=True,
            )
        print("VIOLATION property=%s replay=%s" % (prop, path))
        print("  key=%s\n  %s" % (key, msg.replace("\n", "\n  ")[:1200]))
        vio_list.append({"key": key, "replay": path, "message": msg[:300]})
        rc = 1
    if harness_errors:
        for h in harness_errors[:3]:
            print("HARNESS-ERROR: " + h)
        if rc == 0:
            rc = 2

    if not args.no_evidence and not only:
        ev = {
            "property_id": prop,
            "tier": tier,
            "seed": seed_value,
            "level": mod.LEVEL,
            "coverage": {
                "evaluations": total_eval,
                "distinct_nontrivial": len(nontrivial),
                "rule": spec.rule,
                "samples": samples[:24],
                "classes": dict(sorted(classes.items())),
                "subchecks": sub_reports,
                "exhaustive": False,
                "exhaustive_subspaces": [s["name"] for s in sub_reports if s["exhaustive"]],
                "known_hits": dict(known_hits),
                "inconclusive": inconclusive,
                "counters": dict(sorted(info.items())),
                "violations_found": vio_list,
                "harness_errors": len(harness_errors),
            },
            "assumptions": spec.assumptions,
            "wall_s": round(time.monotonic() - t0, 2),
            "violations": len(vio_list),
        }
        ev["coverage"].update(spec.extra)
        os.makedirs(os.path.join(VERIF, "evidence"), exist_ok=True)
        tmp = os.path.join(VERIF, "evidence", prop + ".json.tmp")
        with open(tmp, "w") as f:
            json.dump(ev, f, indent=1, sort_keys=True)
        os.replace(tmp, os.path.join(VERIF, "evidence", prop + ".json"))
    print(
        "[%s] tier=%s seed=%d evaluations=%d distinct_nontrivial=%d known_hits=%d violations=%d wall=%.1fs"
        % (prop, tier, seed_value, total_eval, len(nontrivial), sum(known_hits.values()), len(vio_list), time.monotonic() - t0)
    )
    return rc


def replay(mod, spec, prop, path, okeys):
    with open(path) as f:
        data = json.load(f)
    case = _dec(data["case"])
    subname = data.get("subcheck")
    subs = [s for s in spec.subs if s.name == subname] or spec.subs[:1]
    out = subs[0].run(case)
    rc = 0
    print("replaying %s on subcheck %s" % (path, subs[0].name))
    if isinstance(out.info, dict) and out.info.get("trace"):
        for line in out.info["trace"]:
            print("   ", line)
    for v in out.violations:
        if v.key in okeys:
            print("KNOWN-FINDING: property=%s %s" % (prop, okeys[v.key].get("what", v.key)))
        else:
            print("VIOLATION property=%s replay=%s" % (prop, path))
            print("  key=%s\n  %s" % (v.key, v.msg))
            rc = 1
    if rc == 0:
        print("no (unlisted) violation on replay")
    return rc


def exc_key(e, pkg="aiocoap"):
    """(exception type, innermost frame inside the package) -> stable key fragment."""
    tb = e.__traceback__
    inner = None
    while tb is not None:
        fn = tb.tb_frame.f_code.co_filename
        if (os.sep + pkg + os.sep) in fn:
            inner = (fn.split(os.sep + pkg + os.sep, 1)[1], tb.tb_frame.f_code.co_name)
        tb = tb.tb_next
    if inner is None:
        return "%s@?" % type(e).__name__
    return "%s@%s:%s" % (type(e).__name__, inner[0], inner[1])
