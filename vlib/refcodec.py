"""E1 -- independent RFC 7252 section 3 codec.  Never imports aiocoap.

fields = dict(type=0..3, code=0..255, mid=0..65535, token=bytes, options=[(number, raw bytes)],
              payload=bytes)

encode(fields) -> bytes            (options must be sorted by number; stable)
decode(data)   -> fields           raises FormatError(reason) for anything RFC 7252 section 3 calls a
                                   message format error (incl. unknown version, which 7252 says to ignore)

Option value formats (7252 5.10, 7959, 7641, 7967, 8613, 9175, 8768) are in FORMATS for the
interpretation of values independent of aiocoap's own table.
"""

CON, NON, ACK, RST = 0, 1, 2, 3


class FormatError(Exception):
    pass


# number -> format.  'uint', 'string', 'opaque', 'block', 'empty'
FORMATS = {
    1: "opaque",  # If-Match
    3: "string",  # Uri-Host
    4: "opaque",  # ETag
    5: "empty",  # If-None-Match
    6: "uint",  # Observe
    7: "uint",  # Uri-Port
    8: "string",  # Location-Path
    9: "opaque",  # OSCORE
    11: "string",  # Uri-Path
    12: "uint",  # Content-Format
    13: "uint",  # Uri-Path-Abbrev (draft-ietf-core-uri-path-abbrev)
    14: "uint",  # Max-Age
    15: "string",  # Uri-Query
    16: "uint",  # Hop-Limit
    17: "uint",  # Accept
    20: "string",  # Location-Query
    23: "block",  # Block2
    27: "block",  # Block1
    28: "uint",  # Size2
    35: "string",  # Proxy-Uri
    39: "string",  # Proxy-Scheme
    60: "uint",  # Size1
    252: "opaque",  # Echo
    258: "uint",  # No-Response
    292: "opaque",  # Request-Tag
}


def ext(value):
    """(nibble, extension bytes) for an option delta or length, RFC 7252 3.1"""
    if value < 0:
        raise ValueError(value)
    if value <= 12:
        return value, b""
    if value <= 268:
        return 13, bytes([value - 13])
    if value <= 65804:
        return 14, (value - 269).to_bytes(2, "big")
    raise ValueError("not representable: %d" % value)


def encode_options(options):
    out = bytearray()
    prev = 0
    for number, raw in options:
        if number < prev:
            raise ValueError("options not sorted")
        dn, de = ext(number - prev)
        ln, le = ext(len(raw))
        out.append((dn << 4) | ln)
        out += de
        out += le
        out += raw
        prev = number
    return bytes(out)


def encode(f):
    token = f.get("token", b"")
    if len(token) > 8:
        raise ValueError("token too long")
    out = bytearray()
    out.append((1 << 6) | ((f["type"] & 3) << 4) | len(token))
    out.append(f["code"] & 0xFF)
    out += (f["mid"] & 0xFFFF).to_bytes(2, "big")
    out += token
    out += encode_options(f.get("options", ()))
    payload = f.get("payload", b"")
    if payload:
        out.append(0xFF)
        out += payload
    return bytes(out)


def decode_options(data, pos=0):
    """returns (options, payload).  Raises FormatError."""
    options = []
    number = 0
    n = len(data)
    while pos < n:
        b = data[pos]
        pos += 1
        if b == 0xFF:
            if pos >= n:
                raise FormatError("payload marker followed by zero-length payload")
            return options, bytes(data[pos:])
        dn, ln = b >> 4, b & 15
        if dn == 15 or ln == 15:
            raise FormatError("nibble 15 is reserved")
        vals = []
        for nib in (dn, ln):
            if nib == 13:
                if pos + 1 > n:
                    raise FormatError("truncated extended field")
                vals.append(data[pos] + 13)
                pos += 1
            elif nib == 14:
                if pos + 2 > n:
                    raise FormatError("truncated extended field")
                vals.append(int.from_bytes(data[pos : pos + 2], "big") + 269)
                pos += 2
            else:
                vals.append(nib)
        delta, length = vals
        number += delta
        if pos + length > n:
            raise FormatError("option value exceeds message")
        options.append((number, bytes(data[pos : pos + length])))
        pos += length
    return options, b""


def decode(data):
    if len(data) < 4:
        raise FormatError("shorter than the fixed header")
    b0 = data[0]
    if b0 >> 6 != 1:
        raise FormatError("unknown version")
    typ = (b0 >> 4) & 3
    tkl = b0 & 15
    if tkl > 8:
        raise FormatError("TKL 9-15 reserved")
    code = data[1]
    mid = int.from_bytes(data[2:4], "big")
    if len(data) < 4 + tkl:
        raise FormatError("token truncated")
    if code == 0 and len(data) != 4:
        raise FormatError("Empty message with bytes after the message ID")
    if code == 0 and tkl != 0:
        raise FormatError("Empty message with token")
    token = bytes(data[4 : 4 + tkl])
    options, payload = decode_options(data, 4 + tkl)
    return dict(type=typ, code=code, mid=mid, token=token, options=options, payload=payload)


# --- value interpretation ----------------------------------------------------------


def uint_bytes(v):
    return v.to_bytes((v.bit_length() + 7) // 8, "big")


def block_bytes(num, more, szx):
    return uint_bytes((num << 4) | (8 if more else 0) | szx)


def interpret(number, raw):
    """Independent reading of an option value: ('uint', int) | ('string', str) | ('opaque', bytes) |
    ('block', (num, more, szx)) ; raises FormatError for strings that are not UTF-8."""
    fmt = FORMATS.get(number, "opaque")
    if fmt == "uint":
        return ("uint", int.from_bytes(raw, "big"))
    if fmt == "string":
        try:
            return ("string", raw.decode("utf-8"))
        except UnicodeDecodeError:
            raise FormatError("string option is not UTF-8")
    if fmt == "block":
        v = int.from_bytes(raw, "big")
        return ("block", (v >> 4, bool(v & 8), v & 7))
    if fmt == "empty":
        return ("opaque", raw)
    return ("opaque", raw)


def value_bytes(number, value):
    fmt = FORMATS.get(number, "opaque")
    if fmt == "uint":
        return uint_bytes(value)
    if fmt == "string":
        return value.encode("utf-8")
    if fmt == "block":
        return block_bytes(*value)
    return bytes(value)


# --- convenience used by the raw peers ---------------------------------------------


def code(cls, detail):
    return (cls << 5) | detail


GET, POST, PUT, DELETE, FETCH, PATCH, IPATCH = 1, 2, 3, 4, 5, 6, 7
CREATED, DELETED, VALID, CHANGED, CONTENT, CONTINUE = (
    code(2, 1),
    code(2, 2),
    code(2, 3),
    code(2, 4),
    code(2, 5),
    code(2, 31),
)
BAD_REQUEST, NOT_FOUND, METHOD_NOT_ALLOWED = code(4, 0), code(4, 4), code(4, 5)
REQUEST_ENTITY_INCOMPLETE, REQUEST_ENTITY_TOO_LARGE = code(4, 8), code(4, 13)
INTERNAL_SERVER_ERROR = code(5, 0)

O_IF_MATCH, O_URI_HOST, O_ETAG, O_IF_NONE_MATCH, O_OBSERVE, O_URI_PORT = 1, 3, 4, 5, 6, 7
O_LOCATION_PATH, O_OSCORE, O_URI_PATH, O_CONTENT_FORMAT, O_MAX_AGE, O_URI_QUERY = 8, 9, 11, 12, 14, 15
O_ACCEPT, O_LOCATION_QUERY, O_BLOCK2, O_BLOCK1, O_SIZE2, O_SIZE1 = 17, 20, 23, 27, 28, 60
O_ECHO, O_NO_RESPONSE, O_REQUEST_TAG = 252, 258, 292


def msg(type, code, mid, token=b"", options=(), payload=b""):
    opts = sorted(((n, value_bytes(n, v) if not isinstance(v, (bytes, bytearray)) else bytes(v)) for n, v in options), key=lambda o: o[0])
    return encode(dict(type=type, code=code, mid=mid, token=token, options=opts, payload=payload))


def opt(fields, number, default=None):
    """first option of that number, interpreted"""
    for n, raw in fields["options"]:
        if n == number:
            return interpret(n, raw)[1]
    return default


def opts(fields, number):
    return [interpret(n, raw)[1] for n, raw in fields["options"] if n == number]


def code_str(c):
    return "%d.%02d" % (c >> 5, c & 31)


def describe(fields):
    t = ["CON", "NON", "ACK", "RST"][fields["type"]]
    o = ",".join("%d=%s" % (n, raw.hex() if len(raw) <= 12 else raw[:10].hex() + "..") for n, raw in fields["options"])
    return "%s %s mid=%d tok=%s [%s] pl=%d" % (t, code_str(fields["code"]), fields["mid"], fields["token"].hex(), o, len(fields["payload"]))


def selftest():
    # the byte strings of tests/test_encoding.py (copied as data, decoded by hand against the RFC)
    v = bytes.fromhex("40010000")
    assert decode(v) == dict(type=0, code=1, mid=0, token=b"", options=[], payload=b"")
    m = dict(type=0, code=1, mid=0, token=b"", options=[], payload=b"")
    assert encode(m) == bytes([64, 1, 0, 0])
    m2 = dict(type=2, code=69, mid=0xBC90, token=b"q", options=[], payload=b"temp = 22.5 C")
    assert encode(m2) == bytes([0x61, 0x45, 0xBC, 0x90, 0x71]) + b"\xfftemp = 22.5 C"
    m3 = dict(type=1, code=3, mid=0xBC90, token=b"", options=[(4, b"abcd"), (23, b"")], payload=b"")
    # ETag delta 4 len 4 ; then Block2 delta 19 -> nibble 13, ext 6
    assert encode(m3) == bytes([0x50, 0x03, 0xBC, 0x90, 0x44]) + b"abcd" + bytes([0xD0, 0x06])
    assert decode(encode(m3)) == m3
    for value in (0, 12, 13, 268, 269, 65804):
        n, e = ext(value)
        got, _ = decode_options(bytes([(n << 4)]) + e)
        assert got == [(value, b"")], (value, got)
    for bad in (b"", b"\x40", b"\x80\x01\x00\x00", b"\x49\x01\x00\x00" + b"x" * 9, b"\x40\x01\x00\x00\xff",
                b"\x40\x00\x00\x00\x00", b"\x40\x01\x00\x00\xf0", b"\x40\x01\x00\x00\x0f", b"\x40\x01\x00\x00\x11",
                b"\x40\x01\x00\x00\xd0", b"\x40\x01\x00\x00\xe0\x00"):
        try:
            decode(bad)
        except FormatError:
            pass
        else:
            raise AssertionError("refcodec accepted %r" % bad)
