"""Atheris worker (E4): coverage-guided fuzzing of one check's byte-level target with the semantic oracle inside.

usage: python -m vlib.fuzz_worker <check module> <runs> <seed> <outdir> [corpus dir]
The check module provides fuzz_one(data: bytes) -> (violations, label, nontrivial).  Unknown-key violations are written
to <outdir>/viol-<n>.json and fuzzing continues (known keys are tolerated by the caller's list in VERIF_TOLERATE).
Statistics go to <outdir>/stats.json every 5000 executions (atexit does not run under libFuzzer)."""

import hashlib
import json
import os
import sys


def main():
    modname, runs, seed, outdir = sys.argv[1], int(sys.argv[2]), int(sys.argv[3]), sys.argv[4]
    corpus = sys.argv[5] if len(sys.argv) > 5 else None
    here = os.path.dirname(os.path.dirname(os.path.abspath(__file__)))
    repo = os.path.abspath(os.environ.get("VERIF_REPO", "/repo"))
    sys.path.insert(0, repo)
    sys.path.insert(1, here)
    import atheris

    with atheris.instrument_imports(include=["aiocoap"]):
        import aiocoap  # noqa: F401
        import aiocoap.message  # noqa: F401
        import aiocoap.options  # noqa: F401
        import aiocoap.optiontypes  # noqa: F401
        import aiocoap.transports.tcp  # noqa: F401
    assert os.path.abspath(aiocoap.__file__).startswith(repo + os.sep), aiocoap.__file__
    import importlib

    mod = importlib.import_module(modname)
    tolerate = set(json.loads(os.environ.get("VERIF_TOLERATE", "[]")))
    stats = {"evaluations": 0, "nontrivial": 0, "classes": {}, "violations": 0, "samples": {}}
    seen_keys = set()
    nt_hashes = set()

    def flush():
        s = dict(stats, nontrivial=len(nt_hashes), nontrivial_hashes=[h.hex() for h in list(nt_hashes)[:200000]])
        tmp = os.path.join(outdir, "stats.json.tmp")
        with open(tmp, "w") as f:
            json.dump(s, f)
        os.replace(tmp, os.path.join(outdir, "stats.json"))

    def one(data):
        vio, label, nontrivial = mod.fuzz_one(bytes(data))
        stats["evaluations"] += 1
        stats["classes"][label] = stats["classes"].get(label, 0) + 1
        if label not in stats["samples"] and len(stats["samples"]) < 12:
            stats["samples"][label] = bytes(data).hex()[:160]
        if nontrivial:
            nt_hashes.add(hashlib.sha1(bytes(data)).digest()[:10])
        for v in vio:
            if v.key in tolerate or v.key in seen_keys:
                continue
            seen_keys.add(v.key)
            stats["violations"] += 1
            with open(os.path.join(outdir, "viol-%d.json" % stats["violations"]), "w") as f:
                json.dump({"key": v.key, "message": v.msg, "data": bytes(data).hex()}, f)
        if stats["evaluations"] % 5000 == 0 or stats["evaluations"] >= runs:
            flush()

    args = [sys.argv[0], "-runs=%d" % runs, "-seed=%d" % (seed or 1), "-max_len=600", "-print_final_stats=0", "-verbosity=0"]
    cdir = os.path.join(outdir, "corpus")
    os.makedirs(cdir, exist_ok=True)
    args.append(cdir)
    if corpus and os.path.isdir(corpus):
        args.append(corpus)
    flush()
    atheris.Setup(args, one)
    atheris.Fuzz()


if __name__ == "__main__":
    main()
