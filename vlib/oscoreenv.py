"""E5 -- OSCORE environment (DESIGN.md 2.8): CPython 3.11 + Debian's python3-cryptography + pure-Python shims for
cbor2 and filelock.  setup() makes aiocoap.oscore importable and validates the stack against the RFC 8613
Appendix C vectors shipped in the repository's tests."""

import os
import sys

DIST = "/usr/lib/python3/dist-packages"
_ready = {}


class EnvError(Exception):
    pass


def setup():
    if _ready:
        return _ready["oscore"]
    if sys.version_info[:2] != (3, 11):
        raise EnvError("OSCORE checks need CPython 3.11 (Debian's cryptography build), got %r" % (sys.version_info[:2],))
    if DIST not in sys.path:
        sys.path.append(DIST)
    shims = os.path.join(os.path.dirname(os.path.dirname(os.path.abspath(__file__))), "shims")
    if shims not in sys.path:
        sys.path.insert(2, shims)
    try:
        import cryptography  # noqa: F401
        from cryptography.hazmat.primitives.ciphers.aead import AESCCM

        AESCCM(b"x" * 16, 8)
    except Exception as e:
        raise EnvError("cryptography with AES-CCM is not importable: %r" % e)
    import cbor2
    import filelock

    if not cbor2.__file__.startswith(shims) or not filelock.__file__.startswith(shims):
        raise EnvError("cbor2/filelock are not the shims (%s, %s)" % (cbor2.__file__, filelock.__file__))
    import aiocoap.oscore as oscore

    _ready["oscore"] = oscore
    return oscore


def vector_selftest():
    """RFC 8613 Appendix C.1-C.8 through tests/test_oscore.py of the repository: validates shims + crypto stack.
    (These are fixed vectors; a failure means the *environment* is wrong, or the code under test was changed in
    a way the fixed vectors notice -- either way it is reported, not silently ignored.)"""
    import unittest

    import aiocoap.defaults

    setup()
    real = aiocoap.defaults.oscore_missing_modules
    aiocoap.defaults.oscore_missing_modules = lambda: []
    try:
        repo = os.environ.get("VERIF_REPO", "/repo")
        if repo not in sys.path:
            sys.path.insert(0, repo)
        sys.modules.pop("tests.test_oscore", None)
        import tests.test_oscore as t

        suite = unittest.defaultTestLoader.loadTestsFromModule(t)
        res = unittest.TextTestRunner(stream=open(os.devnull, "w"), verbosity=0).run(suite)
        return res.testsRun - len(res.skipped), len(res.failures) + len(res.errors)
    finally:
        aiocoap.defaults.oscore_missing_modules = real


def cbor_selftest():
    import cbor2

    for obj in (0, 23, 24, 255, 256, 65535, 65536, 2**32, -1, -25, b"", b"abc", "", "ä", [], [1, [2, b"x"]], {1: 2, b"k": [None, True, False]}, None):
        enc = cbor2.dumps(obj)
        assert cbor2.loads(enc) == obj, obj
    assert cbor2.dumps([1, [10, None], b"", b"\x14", b""]) == bytes.fromhex("8501820af6404114" "40")
    assert cbor2.dumps("Encrypt0") == b"\x68Encrypt0"


AEADS = ["AES-CCM-16-64-128", "AES-CCM-16-64-256", "AES-CCM-64-64-128", "AES-CCM-64-64-256", "AES-CCM-16-128-128", "AES-CCM-16-128-256", "AES-CCM-64-128-128", "AES-CCM-64-128-256", "A128GCM", "A192GCM", "A256GCM", "ChaCha20/Poly1305"]


def aead_names():
    oscore = setup()
    out = []
    for name, alg in oscore.algorithms.items():
        if isinstance(alg, oscore.AeadAlgorithm):
            try:
                key = b"k" * alg.key_bytes
                iv = b"i" * alg.iv_bytes
                assert alg.decrypt(alg.encrypt(b"p", b"a", key, iv), b"a", key, iv) == b"p"
                out.append(name)
            except Exception:
                pass
    return out


def make_context(alg_name, sender_id, recipient_id, id_context, salt, secret, window=32, initialized=True, echo=None, seq=0, hashfun="sha256"):
    oscore = setup()

    class Ctx(oscore.CanProtect, oscore.CanUnprotect, oscore.SecurityContextUtils):
        def post_seqnoincrease(self):
            pass

    c = Ctx()
    c.alg_aead = oscore.algorithms[alg_name]
    c.hashfun = oscore.hashfunctions[hashfun]
    c.sender_id = sender_id
    c.recipient_id = recipient_id
    c.id_context = id_context
    c.derive_keys(salt, secret)
    c.sender_sequence_number = seq
    c.recipient_replay_window = oscore.ReplayWindow(window, lambda: None)
    if initialized:
        c.recipient_replay_window.initialize_empty()
    c.echo_recovery = echo
    return c


def over_the_wire(outer, mid=0x1234, token=b"tk", mtype=0):
    """serialise an outgoing outer message and parse it like a transport would"""
    from aiocoap import Message
    from aiocoap.message import Direction
    from aiocoap.numbers.types import Type

    outer.mid = mid
    outer.token = token
    outer.mtype = Type(mtype)
    data = outer.encode()
    m = Message.decode(data)
    m.direction = Direction.INCOMING
    return m, data
