"""independent minimal RFC 6690 link-format parser (never imports aiocoap)"""


def parse_link_format(text):
    """independent minimal RFC 6690 parser -> [(href, {attr: [values]})]"""
    links = []
    i = 0
    n = len(text)
    while i < n:
        if text[i] != "<":
            raise ValueError("expected '<' at %d in %r" % (i, text[:80]))
        j = text.index(">", i)
        href = text[i + 1 : j]
        i = j + 1
        attrs = {}
        while i < n and text[i] == ";":
            i += 1
            k = i
            while k < n and text[k] not in "=;,":
                k += 1
            name = text[i:k]
            i = k
            val = None
            if i < n and text[i] == "=":
                i += 1
                if i < n and text[i] == '"':
                    k = i + 1
                    buf = []
                    while text[k] != '"':
                        if text[k] == "\\":
                            k += 1
                        buf.append(text[k])
                        k += 1
                    val = "".join(buf)
                    i = k + 1
                else:
                    k = i
                    while k < n and text[k] not in ";,":
                        k += 1
                    val = text[i:k]
                    i = k
            attrs.setdefault(name, []).append(val)
        links.append((href, attrs))
        if i < n:
            if text[i] != ",":
                raise ValueError("expected ',' at %d in %r" % (i, text[:80]))
            i += 1
    return links


