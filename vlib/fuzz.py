"""Parent side of E4: spawn Atheris workers (one process per core share, different seeds), merge their statistics into
runner-style result dicts.  If atheris cannot be imported the sub-check reports zero evaluations and a note -- never an alarm."""

import json
import os
import shutil
import subprocess
import sys
import tempfile

HERE = os.path.dirname(os.path.dirname(os.path.abspath(__file__)))


def atheris_available():
    env = dict(os.environ, PYTHONPATH=os.path.join(HERE, ".deps") + os.pathsep + os.environ.get("PYTHONPATH", ""))
    r = subprocess.run([sys.executable, "-c", "import atheris"], env=env, capture_output=True)
    return r.returncode == 0


def run(modname, runs, workers, seed, known_keys, corpus=None, empty_corpus_share=0.5):
    if not atheris_available():
        return [{"evaluations": 0, "nontrivial": [], "classes": {"atheris-not-installed": 1}, "samples": {}, "known_hits": {}, "skipped": 0, "info": {}, "failures": [], "harness_error": None, "complete": True}]
    base = tempfile.mkdtemp(prefix="vp-fuzz-")
    procs = []
    env = dict(os.environ, PYTHONPATH=os.path.join(HERE, ".deps") + os.pathsep + HERE + os.pathsep + os.environ.get("PYTHONPATH", ""), VERIF_TOLERATE=json.dumps(list(known_keys)))
    try:
        for w in range(workers):
            out = os.path.join(base, "w%d" % w)
            os.makedirs(out)
            cmd = [sys.executable, "-m", "vlib.fuzz_worker", modname, str(runs), str(seed * 100 + w + 1), out]
            # half of the workers start from an empty corpus, the others from the small valid seeds
            if corpus and w >= workers * empty_corpus_share:
                cmd.append(corpus)
            procs.append((out, subprocess.Popen(cmd, cwd=HERE, env=env, stdout=subprocess.DEVNULL, stderr=subprocess.PIPE)))
        results = []
        for out, p in procs:
            try:
                _, err = p.communicate(timeout=3000)
            except subprocess.TimeoutExpired:
                p.kill()
                err = b"timeout"
            st = {}
            try:
                st = json.load(open(os.path.join(out, "stats.json")))
            except Exception:
                pass
            failures = []
            for f in sorted(os.listdir(out)):
                if f.startswith("viol-"):
                    v = json.load(open(os.path.join(out, f)))
                    failures.append((v["key"], json.dumps({"$fuzz": True, "data": {"$b": v["data"]}}), v["message"]))
            herr = None
            if not st.get("evaluations") and p.returncode not in (0, None):
                herr = "atheris worker exited %s: %s" % (p.returncode, err.decode("utf-8", "replace")[-1500:])
            results.append({
                "evaluations": st.get("evaluations", 0),
                "nontrivial": [list(bytes.fromhex(h)) for h in st.get("nontrivial_hashes", [])],
                "classes": st.get("classes", {}),
                "samples": {k: {"$b": v} for k, v in st.get("samples", {}).items()},
                "known_hits": {},
                "skipped": 0,
                "info": {},
                "failures": failures,
                "harness_error": herr,
                "complete": True,
            })
        return results
    finally:
        shutil.rmtree(base, ignore_errors=True)
