"""Independent RFC 8323 section 3.2 framer / serialiser (CoAP over TCP).  Never imports aiocoap.

frame fields = dict(code, token, options=[(number, raw)], payload)

 0 1 2 3 4 5 6 7
+-------+-------+---------------------------+------+-------+---------+--+---------+
|  Len  |  TKL  | Extended Length (if any)  | Code | Token | Options |FF| Payload |

Len 0-12: length of options+marker+payload; 13: 8-bit extension (len-13); 14: 16-bit (len-269);
15: 32-bit (len-65805).
"""

from . import refcodec as R

CSM, PING, PONG, RELEASE, ABORT = 0xE1, 0xE2, 0xE3, 0xE4, 0xE5


class NeedMore(Exception):
    pass


def encode_len(n):
    if n < 13:
        return n, b""
    if n < 269:
        return 13, bytes([n - 13])
    if n < 65805:
        return 14, (n - 269).to_bytes(2, "big")
    return 15, (n - 65805).to_bytes(4, "big")


def encode(f):
    body = R.encode_options(f.get("options", ()))
    if f.get("payload"):
        body += b"\xff" + f["payload"]
    nib, ext = encode_len(len(body))
    token = f.get("token", b"")
    assert len(token) <= 8
    return bytes([(nib << 4) | len(token)]) + ext + bytes([f["code"]]) + token + body


def header(data, pos=0):
    """-> (header_len, tkl, body_len) or raises NeedMore"""
    if pos >= len(data):
        raise NeedMore()
    b0 = data[pos]
    nib, tkl = b0 >> 4, b0 & 15
    extlen = {13: 1, 14: 2, 15: 4}.get(nib, 0)
    if len(data) < pos + 1 + extlen:
        raise NeedMore()
    if nib < 13:
        blen = nib
    else:
        blen = int.from_bytes(data[pos + 1 : pos + 1 + extlen], "big") + {13: 13, 14: 269, 15: 65805}[nib]
    return 1 + extlen + 1, tkl, blen


def split(data, pos=0):
    """-> (frame_bytes, next_pos) of the first complete frame at pos, or raises NeedMore"""
    hl, tkl, blen = header(data, pos)
    total = hl + tkl + blen
    if len(data) < pos + total:
        raise NeedMore()
    return bytes(data[pos : pos + total]), pos + total


def decode_frame(frame):
    """fields of one complete frame; raises R.FormatError"""
    hl, tkl, blen = header(frame)
    if tkl > 8:
        raise R.FormatError("TKL 9-15")
    code = frame[hl - 1]
    token = bytes(frame[hl : hl + tkl])
    options, payload = R.decode_options(frame, hl + tkl)
    return dict(code=code, token=token, options=options, payload=payload)


def decode_stream(data):
    """list of fields for all complete frames (stops silently at an incomplete tail)"""
    out = []
    pos = 0
    while True:
        try:
            fr, pos = split(data, pos)
        except NeedMore:
            return out
        out.append(decode_frame(fr))


def selftest():
    # byte strings as in tests/test_noncoap_tcp_client.py / RFC 8323 examples
    assert encode(dict(code=CSM, token=b"", options=[], payload=b"")) == b"\x00\xe1"
    assert encode(dict(code=1, token=b"", options=[], payload=b"")) == b"\x00\x01"
    assert decode_frame(b"\x00\xe1") == dict(code=CSM, token=b"", options=[], payload=b"")
    for n in (0, 12, 13, 268, 269, 65804, 65805, 70000):
        body = b"x" * (n - 1) if n else b""
        f = dict(code=69, token=b"ab", options=[], payload=body)
        e = encode(f)
        nib = e[0] >> 4
        assert nib == (n if n < 13 else 13 if n < 269 else 14 if n < 65805 else 15), (n, nib)
        assert decode_stream(e + e) == [f, f]
    assert decode_stream(b"\x01") == []
