"""E2 -- simulated network on a virtual clock (DESIGN.md 2.4).

The *real* aiocoap stack (Context -> TokenManager -> MessageManager -> MessageInterfaceUDP6) runs on an
asyncio loop whose clock is virtual; only the OS boundary is replaced: the datagram transport
(FakeDatagramTransport.sendmsg) and datagram_msg_received / datagram_errqueue_received, which the net calls.
Raw peers build and parse datagrams with vlib.refcodec only.

A scenario is a pure function of (case, code under test): the harness owns the clock, callback order of
deliveries, the random numbers of messagemanager/tokenmanager and all inputs.
"""

import asyncio
import contextvars
import heapq
import logging
import random as _random
import selectors
import socket
import struct

from . import refcodec as R


class Deadlock(Exception):
    pass


class _VSelector:
    def __init__(self, loop_ref):
        self._real = selectors.DefaultSelector()
        self._loop_ref = loop_ref

    def select(self, timeout=None):
        loop = self._loop_ref[0]
        if timeout is None:
            ready = self._real.select(0)
            if ready:
                return ready
            raise Deadlock("event loop has nothing scheduled and nothing ready (virtual t=%.6f)" % loop._vtime)
        if timeout > 0:
            target = loop._vtime + timeout
            if loop._scheduled:
                when = loop._scheduled[0]._when
                if abs(when - target) < 1e-6:
                    target = when
            loop._vtime = max(loop._vtime, target)
        return self._real.select(0)

    def __getattr__(self, name):
        return getattr(self._real, name)


class VirtualClockLoop(asyncio.SelectorEventLoop):
    def __init__(self):
        ref = [None]
        self._vtime = 0.0
        super().__init__(selector=_VSelector(ref))
        ref[0] = self

    def time(self):
        return self._vtime


class _ListHandler(logging.Handler):
    def __init__(self, sink, loop):
        super().__init__(level=logging.WARNING)
        self.sink = sink
        self.loop = loop

    def emit(self, record):
        try:
            msg = record.getMessage()
        except Exception as e:  # a broken log call is itself worth knowing about
            msg = "<<log formatting failed: %r>> %r %r" % (e, record.msg, record.args)
        self.sink.append((self.loop.time(), record.levelno, record.name, msg))


class _FakeSocket:
    def __init__(self, sockaddr):
        self._sockaddr = sockaddr

    def getsockname(self):
        return self._sockaddr

    def bind(self, addr):
        pass


class FakeDatagramTransport:
    def __init__(self, net, endpoint):
        self.net = net
        self.endpoint = endpoint
        self.closed = False
        self.sends_after_close = 0

    def get_extra_info(self, name, default=None):
        if name == "socket":
            return _FakeSocket(self.endpoint.sockaddr)
        return default

    def sendmsg(self, data, ancdata, flags, address):
        if self.closed:
            self.sends_after_close += 1
            self.net.events.append((self.net.loop.time(), "send-after-close", self.endpoint.name, bytes(data)))
            self.net.wire_after_close.append((self.net.loop.time(), self.endpoint.name, bytes(data)))
            return
        local = None
        for level, typ, cdata in ancdata:
            if level == socket.IPPROTO_IPV6 and typ == socket.IPV6_PKTINFO:
                local = cdata
        if self.net.peek_fate()[0] == "senderr":
            # the kernel refuses the datagram: the real transport catches the OSError from sendmsg() and reports it
            # synchronously through protocol.error_received(), i.e. from inside the send call
            fate = self.net.next_fate()
            self.net.seq += 1
            self.net.wire.append(dict(seq=self.net.seq, t=self.net.loop.time(), src=self.endpoint.addr, dst=(address[0], address[1]), data=bytes(data), fate=fate, srcname=self.endpoint.name, refused=True))
            self.net.order += 1
            self.net.events.append((self.net.loop.time(), "send-error", self.endpoint.name, (address[0], address[1]), self.net.order))
            self.endpoint.iface.error_received(OSError(fate[1] if len(fate) > 1 else 101, "Network is unreachable (simulated sendmsg failure)"))
            return
        self.net.transmit(self.endpoint, (address[0], address[1]), bytes(data), local)

    def close(self):
        if self.closed:
            return
        self.closed = True
        self.net.loop.call_soon(self.endpoint.iface.connection_lost, None)

    def is_closing(self):
        return self.closed

    def abort(self):
        self.close()


def pktinfo(ip, ifindex=0):
    return socket.inet_pton(socket.AF_INET6, ip) + struct.pack("I", ifindex)


class Endpoint:
    """one address on the net; either an aiocoap context or a raw peer"""

    def __init__(self, net, name, ip, port=5683):
        self.net = net
        self.name = name
        self.ip = ip
        self.port = port
        self.sockaddr = (ip, port, 0, 0)
        self.addr = (ip, port)
        self.groups = set()


class CoapEndpoint(Endpoint):
    ctx = None
    iface = None
    transport = None
    mman = None
    tman = None

    def remote(self, other, port=None):
        """an address object for requests from this context to `other` (Endpoint or ip string)"""
        from aiocoap.transports.udp6 import UDP6EndpointAddress

        if isinstance(other, Endpoint):
            sockaddr = other.sockaddr
        else:
            sockaddr = (other, port or 5683, 0, 0)
        return UDP6EndpointAddress(sockaddr, self.iface)

    def deliver(self, data, src, dst_ip):
        anc = [(socket.IPPROTO_IPV6, socket.IPV6_PKTINFO, pktinfo(dst_ip))]
        self.iface.datagram_msg_received(data, anc, 0, (src[0], src[1], 0, 0))


class RawPeer(Endpoint):
    def __init__(self, net, name, ip, port=5683, handler=None):
        super().__init__(net, name, ip, port)
        self.handler = handler
        self.received = []  # (t, src, fields or None, raw)
        self._mid = 0x1000

    def next_mid(self):
        self._mid = (self._mid + 1) & 0xFFFF
        return self._mid

    def deliver(self, data, src, dst_ip):
        try:
            fields = R.decode(data)
        except R.FormatError:
            fields = None
        t = self.net.loop.time()
        self.received.append((t, src, fields, data))
        if self.handler is not None:
            try:
                self.handler(self, t, src, fields, data)
            except Exception as e:  # a bug of the scripted peer is a harness error, never a violation
                self.net.harness_errors.append(e)

    def send(self, dst, data, delay=0.0):
        """dst: Endpoint or (ip, port).  Sent after `delay` virtual seconds, then subject to the fate list."""
        addr = dst.addr if isinstance(dst, Endpoint) else dst
        if delay <= 0:
            self.net.transmit(self, addr, data, None)
        else:
            self.net.loop.call_later(delay, self.net.transmit, self, addr, data, None)


class SimNet:
    DEFAULT_DELAY = 0.001

    def __init__(self, fates=(), rng_seed=0, mid0=None, token0=None):
        self.loop = VirtualClockLoop()
        self.fates = list(fates)
        self.fate_i = 0
        self.seq = 0
        self.wire = []  # dict(seq, t, src, dst, data, fate)
        self.deliveries = []  # dict(seq, t, src, dst, data, wire_seq)
        self.wire_after_close = []
        self.events = []  # free-form application/harness events (t, kind, ...)
        self.loop_exceptions = []
        self.logs = []
        self.endpoints = {}
        self._heap = []
        self._pump_handle = None
        self._contexts = []
        self.rng = _random.Random(rng_seed)
        self.mid0 = mid0
        self.token0 = token0
        self._patched = []
        self.before_delivery = None
        self.harness_errors = []
        self.order = 0
        self.after_delivery = None
        self.loop.set_exception_handler(self._on_loop_exception)
        self._handler = _ListHandler(self.logs, self.loop)
        self._logger = logging.getLogger("vpsim")
        self._logger.handlers[:] = [self._handler]
        self._logger.propagate = False
        self._logger.setLevel(logging.WARNING)
        self._patch()

    # -- nondeterminism owned by the harness ------------------------------------------
    def _patch(self):
        import aiocoap.messagemanager
        import aiocoap.protocol
        import aiocoap.tokenmanager

        loop = self.loop

        class _Time:
            @staticmethod
            def time():
                return loop.time()

        for mod, name, new in (
            (aiocoap.messagemanager, "random", self.rng),
            (aiocoap.tokenmanager, "random", self.rng),
            (aiocoap.protocol, "time", _Time),
        ):
            self._patched.append((mod, name, getattr(mod, name)))
            setattr(mod, name, new)

    def _unpatch(self):
        for mod, name, old in self._patched:
            setattr(mod, name, old)
        self._patched = []

    def _on_loop_exception(self, loop, context):
        exc = context.get("exception")
        self.loop_exceptions.append((loop.time(), context.get("message"), repr(exc), exc))

    # -- endpoints ---------------------------------------------------------------------
    def add_raw(self, name, ip, port=5683, handler=None):
        p = RawPeer(self, name, ip, port, handler)
        self.endpoints[p.addr] = p
        return p

    def add_context(self, name, ip, port=5683, site=None, groups=()):
        """Create a real aiocoap Context wired like Context.create_*_context does, on a fake transport."""
        ep = CoapEndpoint(self, name, ip, port)
        ep.groups = set(groups)

        async def make():
            from aiocoap.messagemanager import MessageManager
            from aiocoap.protocol import Context
            from aiocoap.tokenmanager import TokenManager
            from aiocoap.transports.udp6 import MessageInterfaceUDP6

            ctx = Context(loop=self.loop, serversite=site, loggername="vpsim." + name)
            mint = MessageInterfaceUDP6(bind=ep.sockaddr, log=ctx.log, loop=self.loop)
            tman = TokenManager(ctx)
            mman = MessageManager(tman)
            if self.mid0 is not None:
                mman.message_id = self.mid0 & 0xFFFF
            if self.token0 is not None:
                tman._token = self.token0
            mint._ctx = mman
            mman.message_interface = mint
            tman.token_interface = mman
            ctx.request_interfaces.append(tman)
            ep.transport = FakeDatagramTransport(self, ep)
            ep.iface = mint
            mint.connection_made(ep.transport)
            await mint.ready
            ep.ctx, ep.mman, ep.tman = ctx, mman, tman

        self.loop.run_until_complete(make())
        self.endpoints[ep.addr] = ep
        self._contexts.append(ep)
        return ep

    # -- the wire ---------------------------------------------------------------------
    def peek_fate(self):
        if self.fate_i < len(self.fates):
            return self.fates[self.fate_i]
        return ["deliver", self.DEFAULT_DELAY]

    def next_fate(self):
        if self.fate_i < len(self.fates):
            f = self.fates[self.fate_i]
            self.fate_i += 1
            return f
        return ["deliver", self.DEFAULT_DELAY]

    def transmit(self, src, dst_addr, data, local_pktinfo=None):
        fate = self.next_fate()
        self.seq += 1
        now = self.loop.time()
        rec = dict(seq=self.seq, t=now, src=src.addr, dst=dst_addr, data=data, fate=fate, srcname=src.name)
        self.wire.append(rec)
        kind = fate[0]
        if kind in ("drop", "senderr"):  # (a raw peer's refused send is just a datagram that never leaves)
            return
        delays = fate[1:] if kind == "dup" else fate[1:2]
        for d in delays:
            self.seq += 1
            heapq.heappush(self._heap, (now + max(d, 1e-6), self.seq, rec))
        self._reschedule()

    def inject(self, src_addr, dst_addr, data, delay=0.0, srcname="forger"):
        """a datagram that appears on the wire from an arbitrary source address (forgery), not subject to fates"""
        self.seq += 1
        now = self.loop.time()
        rec = dict(seq=self.seq, t=now, src=tuple(src_addr), dst=tuple(dst_addr), data=data, fate=["inject", delay], srcname=srcname)
        self.wire.append(rec)
        self.seq += 1
        heapq.heappush(self._heap, (now + max(delay, 1e-6), self.seq, rec))
        self._reschedule()
        return rec

    def _reschedule(self):
        if not self._heap:
            return
        t = self._heap[0][0]
        if self._pump_handle is not None:
            if self._pump_when <= t:
                return
            self._pump_handle.cancel()
        self._pump_when = t
        self._pump_handle = self.loop.call_at(t, self._pump_entry)

    def _pump_entry(self):
        # run with an empty context: otherwise udp6's "being sent to" context variable leaks from the
        # sender's call stack into the receiver (a harness artefact, DESIGN.md 2.4)
        self._pump_handle = None
        contextvars.Context().run(self._pump)

    def _pump(self):
        now = self.loop.time()
        while self._heap and self._heap[0][0] <= now + 1e-9:
            t, seq, rec = heapq.heappop(self._heap)
            self._deliver(rec, seq)
        self._reschedule()

    def _deliver(self, rec, seq):
        dst_ip, dst_port = rec["dst"]
        targets = []
        ep = self.endpoints.get((dst_ip, dst_port))
        if ep is not None:
            targets.append(ep)
        else:
            for e in self.endpoints.values():
                if dst_ip in e.groups and e.port == dst_port:
                    targets.append(e)
        for ep in targets:
            if isinstance(ep, CoapEndpoint) and ep.transport.closed:
                self.deliveries.append(dict(seq=seq, t=self.loop.time(), src=rec["src"], dst=rec["dst"], data=rec["data"], wire_seq=rec["seq"], to=ep.name, lost="closed"))
                continue
            self.order += 1
            d = dict(seq=seq, t=self.loop.time(), src=rec["src"], dst=rec["dst"], data=rec["data"], wire_seq=rec["seq"], to=ep.name, wire_before=len(self.wire), order=self.order)
            self.deliveries.append(d)
            if self.before_delivery is not None:
                self.before_delivery(d)
            ep.deliver(rec["data"], rec["src"], dst_ip)
            d["wire_after"] = len(self.wire)
            if self.after_delivery is not None:
                self.after_delivery(d)

    def inject_error(self, ep, remote_addr, errno_value=111):
        """ICMP-style error reported through the error queue of a context's socket"""
        from aiocoap.util import socknumbers

        if ep.transport.closed:
            return
        ee = struct.pack("IbbbbII", errno_value, 2, 1, 4, 0, 0, 0)
        anc = [(socket.IPPROTO_IPV6, socknumbers.IPV6_RECVERR, ee)]
        self.order += 1
        self.events.append((self.loop.time(), "icmp-error", ep.name, remote_addr, self.order))
        contextvars.Context().run(ep.iface.datagram_errqueue_received, b"", anc, socknumbers.MSG_ERRQUEUE, (remote_addr[0], remote_addr[1], 0, 0))

    # -- running -----------------------------------------------------------------------
    def at(self, t, fn, *args):
        return self.loop.call_at(t, lambda: contextvars.Context().run(fn, *args))

    def run_until(self, t):
        async def wait():
            delay = t - self.loop.time()
            if delay > 0:
                await asyncio.sleep(delay)

        self.loop.run_until_complete(wait())

    def run(self, coro):
        return self.loop.run_until_complete(coro)

    def shutdown_context(self, ep):
        async def sd():
            await ep.ctx.shutdown()

        t0 = self.loop.time()
        self.loop.run_until_complete(sd())
        self.events.append((self.loop.time(), "shutdown-returned", ep.name, self.loop.time() - t0))

    def close(self):
        try:
            # cancel leftovers so that nothing complains at interpreter level
            pending = [t for t in asyncio.all_tasks(self.loop) if not t.done()]
            for t in pending:
                t.cancel()
            if pending:
                self.loop.run_until_complete(asyncio.gather(*pending, return_exceptions=True))
        except Exception:
            pass
        finally:
            self._unpatch()
            self._logger.handlers[:] = []
            try:
                self.loop.close()
            except Exception:
                pass
            if self.harness_errors:
                raise RuntimeError("scripted peer raised: %r" % self.harness_errors[0]) from self.harness_errors[0]

    # -- helpers for oracles ---------------------------------------------------------
    def wire_fields(self):
        """wire log with refcodec-decoded fields (None if not decodable)"""
        out = []
        for r in self.wire:
            try:
                f = R.decode(r["data"])
            except R.FormatError:
                f = None
            out.append(dict(r, fields=f))
        return out

    def trace(self, limit=200):
        """human readable merged trace for replays"""
        lines = []
        for r in self.wire:
            try:
                d = R.describe(R.decode(r["data"]))
            except R.FormatError:
                d = "unparsable " + r["data"].hex()[:40]
            lines.append((r["t"], r["seq"], "%9.4f wire #%d %s -> %s  %s  fate=%s" % (r["t"], r["seq"], r["srcname"], r["dst"][0], d, r["fate"])))
        for ev in self.events:
            lines.append((ev[0], 10**9, "%9.4f event %s" % (ev[0], " ".join(str(x)[:100] for x in ev[1:]))))
        for t, lvl, name, msg in self.logs:
            lines.append((t, 10**9, "%9.4f log %s %s: %s" % (t, logging.getLevelName(lvl), name, msg[:160])))
        for t, m, e, _ in self.loop_exceptions:
            lines.append((t, 10**9, "%9.4f LOOP-EXCEPTION %s %s" % (t, m, e)))
        lines.sort(key=lambda x: (x[0], x[1]))
        return [l[2] for l in lines[:limit]]


DELAYS = [0.001, 0.05, 0.15, 1.0, 2.5, 10.0, 50.0, 130.0, 250.0]


def fate_strategy(delays=DELAYS, p_drop=2, p_dup=2, p_deliver=6):
    from hypothesis import strategies as st

    d = st.sampled_from(delays)
    return st.one_of(
        *([st.just(["drop"])] * p_drop),
        *([st.tuples(st.just("deliver"), d).map(list)] * p_deliver),
        *([st.tuples(st.just("dup"), d, d).map(list)] * p_dup),
    )


class ReqLog:
    """book-keeping for client requests started by a scenario"""

    def __init__(self, net):
        self.net = net
        self.items = []

    def start(self, ep, msg, tag=None, blockwise=False):
        item = {"tag": tag, "t_call": self.net.loop.time(), "msg": msg, "ep": ep, "done_calls": 0, "t_done": None}
        self.items.append(item)
        try:
            req = ep.ctx.request(msg, handle_blockwise=blockwise)
        except Exception as e:  # request() itself is not supposed to raise
            item["raised"] = e
            return item
        item["req"] = req
        item["fut"] = req.response

        def cb(fut, item=item):
            item["done_calls"] += 1
            if item["t_done"] is None:
                item["t_done"] = self.net.loop.time()

        req.response.add_done_callback(cb)
        return item

    @staticmethod
    def outcome(item):
        fut = item.get("fut")
        if fut is None:
            return ("raised", item.get("raised"))
        if not fut.done():
            return ("pending", None)
        if fut.cancelled():
            return ("cancelled", None)
        if fut.exception() is not None:
            return ("exception", fut.exception())
        return ("result", fut.result())
