"""C20 -- resource directory: histories of registrations, updates, removals, expiries and lookups against a reference
directory model on a virtual clock."""

import asyncio
import logging
from urllib.parse import urljoin

from hypothesis import strategies as st

from vlib.linkfmt import parse_link_format
from vlib.runner import CheckSpec, Outcome, Sub, V, exc_key

ID = "C20"
LEVEL = "exploration"

_log = logging.getLogger("vp-c20")
_log.setLevel(100)

GRACE = 15
DEFAULT_LT = 90000
EPS = ["e1", "e2", "e3"]
DOCS = {
    "one": b'</s/t>;rt="temp"',
    "two": b'</s/t>;rt="temp",</s/l>;rt="light";if="sensor"',
    "anchor": b'</s/t>;rt="temp",</x>;anchor="/s/t";rel="alt"',
    "abs": b'<coap://other.example/r>;rt="light"',
    "empty": b"",
    "badutf8": b"</s/\xff>",
    "garbage": b"not a link format <",
}


class StubRemote:
    scheme = "coap"
    is_multicast = False
    is_multicast_locally = False
    maximum_block_size_exp = 6
    maximum_payload_size = 10**7

    def __init__(self, n):
        self.n = n
        self.hostinfo = "[2001:db8::%d]" % n
        self.hostinfo_local = "rd.example"
        self.blockwise_key = ("stub", n)
        self.uri = "coap://[2001:db8::%d]" % n
        self.uri_base = self.uri

    def as_response_address(self):
        return self


def links_of(doc):
    """reference reading of a registered document -> [(href, [(k, v)])]"""
    text = DOCS[doc].decode("utf-8")
    return [(h, [(k, v) for k, vs in a.items() for v in vs]) for h, a in parse_link_format(text)] if text else []


def run_case(case):
    from vlib.simnet import VirtualClockLoop

    loop = VirtualClockLoop()
    asyncio.set_event_loop(loop)
    try:
        return loop.run_until_complete(_run(case, loop))
    finally:
        try:
            pend = [t for t in asyncio.all_tasks(loop) if not t.done()]
            for t in pend:
                t.cancel()
            if pend:
                loop.run_until_complete(asyncio.gather(*pend, return_exceptions=True))
        finally:
            asyncio.set_event_loop(None)
            loop.close()


async def _run(case, loop):
    import aiocoap
    from aiocoap.cli.rd import StandaloneResourceDirectory
    from aiocoap.message import Direction
    from aiocoap.pipe import Pipe
    from aiocoap.protocol import Context

    vio = []
    labels = set()
    ctx = Context(loop=loop, serversite=None, loggername="vp-c20.ctx")
    ctx.log.setLevel(100)
    rd = StandaloneResourceDirectory(context=ctx, log=_log)
    ctx.serversite = rd
    loop_exc = []
    loop.set_exception_handler(lambda l, c: loop_exc.append(c))

    async def request(method, path, query=(), payload=b"", cf=None, client=1):
        m = aiocoap.Message(code=aiocoap.numbers.codes.Code(method), payload=payload)
        m.opt.uri_path = path
        if query:
            m.opt.uri_query = query
        if cf is not None:
            m.opt.content_format = cf
        m.direction = Direction.INCOMING
        m.remote = StubRemote(client)
        m.mid = 1
        m.mtype = aiocoap.numbers.types.Type.CON
        m.token = b"t"
        pipe = Pipe(m, _log)
        fut = loop.create_future()

        def on_event(ev):
            if not fut.done():
                fut.set_result(ev)
            return False

        pipe.on_event(on_event)
        ctx.render_to_pipe(pipe)
        ev = await asyncio.wait_for(fut, 5)
        return ev.message

    model = {}  # (ep, d) -> dict(location, doc, params, base, lt, expiry)
    failed_write_on_existing = False
    expiry_seen = False
    rereg = False

    def expire(now):
        nonlocal expiry_seen
        for k in list(model):
            if model[k]["expiry"] <= now - 0.5:
                del model[k]
                expiry_seen = True

    def near_boundary(now):
        return any(abs(model[k]["expiry"] - now) <= 0.5 for k in model)

    for si, stp in enumerate(case["steps"]):
        op = stp["op"]
        now = loop.time()
        if op == "advance":
            dt = stp["dt"]
            if dt == "lt-1":
                ks = sorted(model, key=repr)
                if not ks:
                    continue
                e = model[ks[stp.get("pick", 0) % len(ks)]]
                dt = max(0.0, e["expiry"] - GRACE - 1 - now)
            elif dt in ("lt+14", "lt+16"):
                ks = sorted(model, key=repr)
                if not ks:
                    continue
                e = model[ks[stp.get("pick", 0) % len(ks)]]
                dt = max(0.0, e["expiry"] - GRACE + (14 if dt == "lt+14" else 16) - now)
            await asyncio.sleep(dt)
            now = loop.time()
            if near_boundary(now):
                await asyncio.sleep(1.1)
                now = loop.time()
            expire(now)
        elif op == "register":
            ep, d = stp["ep"], stp.get("d")
            if ep is None and "ep=dup" in stp.get("extra", []):
                ep = "dup"
                stp = dict(stp, extra=[x for x in stp["extra"] if x != "ep=dup"])
            query = []
            if ep is not None:
                query.append("ep=" + ep)
            if d:
                query.append("d=" + d)
            for lt in stp.get("lt", []):
                query.append("lt=" + str(lt))
            if stp.get("base"):
                query.append("base=" + stp["base"])
            for x in stp.get("extra", []):
                query.append(x)
            doc = stp["doc"]
            cf = stp.get("cf", 40)
            resp = await request(2, ("resourcedirectory", ""), query, DOCS[doc], cf, client=stp.get("client", 1))
            code = int(resp.code)
            key = (ep, d or None)
            labels.add("register-%d.%02d" % (code >> 5, code & 31))
            if code == 65:
                loc = tuple(resp.opt.location_path)
                if key in model:
                    rereg = True
                    if model[key]["location"] != loc:
                        vio.append(V("C20/re-registration-changes-location", "step %d: %r was at %r, now %r" % (si, key, model[key]["location"], loc)))
                for k2, e2 in model.items():
                    if k2 != key and e2["location"] == loc:
                        vio.append(V("C20/location-shared", "step %d: %r and %r both at %r" % (si, key, k2, loc)))
                lt = int(stp["lt"][0]) if stp.get("lt") else DEFAULT_LT
                params = {}
                for x in stp.get("extra", []):
                    k, _, v = x.partition("=")
                    params.setdefault(k, []).append(v)
                model[key] = {"location": loc, "doc": doc, "params": params, "base": stp.get("base") or StubRemote(stp.get("client", 1)).uri, "base_explicit": bool(stp.get("base")), "lt": lt, "expiry": now + lt + GRACE, "ep": ep, "d": d or None}
                if not stp.get("valid", False):
                    labels.add("questionable-registration-accepted")
            elif (code >> 5) == 4:
                if key in model:
                    failed_write_on_existing = True
                if stp.get("valid", False):
                    vio.append(V("C20/valid-registration-rejected", "step %d %r -> %s %r" % (si, stp, resp.code, resp.payload[:60])))
            else:
                vio.append(V("C20/registration-answer-%d.%02d" % (code >> 5, code & 31), "step %d %r -> %s" % (si, stp, resp.code)))
        elif op in ("update_post", "update_put", "delete", "get"):
            ks = sorted(model, key=repr)
            if ks and stp.get("target", "live") == "live":
                key = ks[stp.get("pick", 0) % len(ks)]
                loc = model[key]["location"]
            else:
                key = None
                loc = ("reg", str(1 + stp.get("pick", 0) % 5), "")
                for k2, e2 in model.items():
                    if e2["location"] == loc:
                        key = k2
            query = []
            for lt in stp.get("lt", []):
                query.append("lt=" + str(lt))
            if stp.get("base"):
                query.append("base=" + stp["base"])
            for x in stp.get("extra", []):
                query.append(x)
            if op == "update_post":
                body = DOCS[stp["doc"]] if stp.get("doc") else b""
                resp = await request(2, loc, query, body, stp.get("cf"), client=stp.get("client", 1))
            elif op == "update_put":
                resp = await request(3, loc, query, DOCS[stp["doc"]], stp.get("cf", 40), client=stp.get("client", 1))
            elif op == "delete":
                resp = await request(4, loc, (), b"", None)
            else:
                resp = await request(1, loc, (), b"", None)
            code = int(resp.code)
            labels.add("%s-%d.%02d" % (op, code >> 5, code & 31))
            if key is None:
                if (code >> 5) == 2:
                    vio.append(V("C20/%s-on-absent-registration-succeeds" % op, "step %d: %r -> %s" % (si, loc, resp.code)))
                continue
            e = model[key]
            if op == "get":
                if code != 69:
                    vio.append(V("C20/get-registration-fails", "%r -> %s" % (loc, resp.code)))
                else:
                    got = [(h, sorted((k, v) for k, vs in a.items() for v in vs)) for h, a in parse_link_format(resp.payload.decode("utf-8"))] if resp.payload else []
                    want = [(h, sorted(a)) for h, a in links_of(e["doc"])]
                    if got != want:
                        vio.append(V("C20/registration-resource-differs", "step %d %r: %r vs latest successful write %r" % (si, loc, got, want)))
                continue
            if (code >> 5) == 2:
                if op == "delete":
                    del model[key]
                else:
                    if stp.get("lt"):
                        e["lt"] = int(stp["lt"][0])
                    e["expiry"] = now + e["lt"] + GRACE
                    if stp.get("base"):
                        e["base"] = stp["base"]
                        e["base_explicit"] = True
                    elif not e["base_explicit"]:
                        e["base"] = StubRemote(stp.get("client", 1)).uri
                    for x in stp.get("extra", []):
                        k, _, v = x.partition("=")
                        e["params"][k] = [v]
                    if op == "update_put":
                        e["doc"] = stp["doc"]
                    if not stp.get("valid", False):
                        labels.add("questionable-update-accepted")
            elif (code >> 5) == 4:
                failed_write_on_existing = True
                if stp.get("valid", False):
                    vio.append(V("C20/valid-update-rejected", "step %d %r -> %s %r" % (si, stp, resp.code, resp.payload[:60])))
            else:
                vio.append(V("C20/%s-answer-%d.%02d" % (op, code >> 5, code & 31), "step %d %r -> %s" % (si, stp, resp.code)))
        # ------------------------------------------------------------- observe the directory after every step
        now = loop.time()
        if near_boundary(now):
            await asyncio.sleep(1.1)
            now = loop.time()
        expire(now)
        flt = stp.get("lookup_filter") if op == "lookup" else None
        resp = await request(1, ("endpoint-lookup", ""), [flt] if flt else ())
        if int(resp.code) != 69:
            vio.append(V("C20/endpoint-lookup-fails", "%s %r" % (resp.code, resp.payload[:80])))
            break
        try:
            got = parse_link_format(resp.payload.decode("utf-8")) if resp.payload else []
        except Exception as e_:
            vio.append(V("C20/endpoint-lookup-unparsable", "%r %r" % (e_, resp.payload[:120])))
            break
        live = list(model.values())
        if flt:
            k, _, v = flt.partition("=")
            pred = (lambda x: x.startswith(v[:-1])) if v.endswith("*") else (lambda x: x == v)
            if k == "ep":
                live = [e for e in live if pred(e["ep"])]
            elif k == "d":
                live = [e for e in live if e["d"] is not None and pred(e["d"])]
            elif k == "et":
                live = [e for e in live if any(pred(x) for x in e["params"].get("et", []))]
            elif k == "rt":
                live = [e for e in live if any(any(pred(p) for p in val.split()) for h, a in links_of(e["doc"]) for kk, val in a if kk == "rt" and val is not None)]
            labels.add("lookup-filter-" + k)
        want = sorted(("/" + "/".join(e["location"]), e["ep"], e["d"], e["base"], tuple(sorted((k, v) for k, vs in e["params"].items() if k not in ("ep", "d") for v in vs))) for e in live)
        gotn = []
        for h, a in got:
            others = tuple(sorted((k, v) for k, vs in a.items() if k not in ("ep", "d", "base", "rt") for v in vs))
            gotn.append((h, (a.get("ep") or [None])[0], (a.get("d") or [None])[0], (a.get("base") or [None])[0], others))
        gotn.sort(key=repr)
        if gotn != sorted(want, key=repr):
            key_ = "C20/endpoint-lookup-differs"
            last = stp["op"]
            if (set(x[1:3] for x in gotn) != set(x[1:3] for x in want)):
                key_ += "/after-" + last + ("-4.xx" if "-4." in " ".join(sorted(labels)) and last in ("register", "update_post", "update_put") and resp is not None else "")
            vio.append(V(key_, "step %d (%s):\n directory lists %r\n model (latest successful writes, unexpired) %r" % (si, stp["op"] + " " + str({k: v for k, v in stp.items() if k != "op"}), gotn, sorted(want, key=repr))))
            break
        # resource lookup
        resp = await request(1, ("resource-lookup", ""), ())
        if int(resp.code) != 69:
            vio.append(V("C20/resource-lookup-fails", "%s" % resp.code))
            break
        gotr = sorted((h, tuple(sorted((k, v) for k, vs in a.items() for v in vs))) for h, a in (parse_link_format(resp.payload.decode("utf-8")) if resp.payload else []))
        wantr = []
        for e in model.values():
            for h, a in links_of(e["doc"]):
                href = urljoin(e["base"], h)
                attrs = [(k, v) for k, v in a if k != "anchor"]
                anchor = [v for k, v in a if k == "anchor"]
                if anchor:
                    attrs.append(("anchor", urljoin(e["base"], anchor[0])))
                wantr.append((href, tuple(sorted(attrs))))
        wantr.sort()
        if gotr != wantr:
            vio.append(V("C20/resource-lookup-differs", "step %d (%s):\n directory lists %r\n model %r" % (si, stp["op"], gotr, wantr)))
            break
    for c in loop_exc:
        vio.append(V("C20/loop-exception/" + type(c.get("exception")).__name__, "%s %r" % (c.get("message"), c.get("exception"))))
    if failed_write_on_existing:
        labels.add("failed-write-on-existing")
    if expiry_seen:
        labels.add("expiry")
    if rereg:
        labels.add("re-registration")
    return Outcome(vio, sorted(labels), failed_write_on_existing or expiry_seen or rereg)


_lt = st.sampled_from([[], [], [60], [1], [100000], ["abc"], [60, 120], [-5], [""]])


@st.composite
def _step(draw):
    op = draw(st.sampled_from(["register"] * 5 + ["update_post"] * 3 + ["update_put"] * 2 + ["delete", "advance", "advance", "lookup", "get"]))
    s = {"op": op}
    if op == "register":
        s["ep"] = draw(st.sampled_from(["e1", "e1", "e1", "e2", "e3", None] if draw(st.integers(0, 10)) == 0 else ["e1", "e1", "e1", "e2", "e3"]))
        s["d"] = draw(st.sampled_from([None, None, "d1"]))
        s["lt"] = draw(_lt)
        s["base"] = draw(st.sampled_from([None, None, "coap://[2001:db8::99]", "coap://host.example:1234"]))
        s["extra"] = draw(st.sampled_from([[], [], ["et=x"], ["et=y"], ["rt=bad"], ["count=1"], ["page=1"], ["href=/x"], ["anchor=a"], ["ep=dup"], ["proxy=maybe"]]))
        s["doc"] = draw(st.sampled_from(["one", "two", "anchor", "abs", "empty", "badutf8", "garbage"]))
        s["cf"] = draw(st.sampled_from([40, 40, 40, 40, 0, None]))
        s["client"] = draw(st.integers(1, 2))
        s["valid"] = s["ep"] is not None and s["lt"] in ([], [60], [1], [100000]) and s["extra"] in ([], ["et=x"], ["et=y"]) and s["doc"] in ("one", "two", "anchor", "abs", "empty") and s["cf"] == 40
    elif op in ("update_post", "update_put"):
        s["pick"] = draw(st.integers(0, 9))
        s["target"] = draw(st.sampled_from(["live"] * 5 + ["any"]))
        s["lt"] = draw(_lt)
        s["base"] = draw(st.sampled_from([None, None, None, "coap://[2001:db8::77]"]))
        s["extra"] = draw(st.sampled_from([[], [], [], ["et=z"], ["rt=bad"], ["ep=other"], ["d=other"], ["count=1"]]))
        s["client"] = draw(st.integers(1, 2))
        if op == "update_put":
            s["doc"] = draw(st.sampled_from(["one", "two", "anchor", "empty", "badutf8", "garbage"]))
            s["cf"] = draw(st.sampled_from([40, 40, 40, 0, None]))
            s["valid"] = s["lt"] in ([], [60], [1], [100000]) and s["extra"] in ([], ["et=z"]) and s["doc"] in ("one", "two", "anchor", "empty") and s["cf"] == 40
        else:
            s["doc"] = draw(st.sampled_from([None, None, None, "one", "empty"]))
            s["cf"] = draw(st.sampled_from([None, None, None, 40]))
            s["valid"] = s["lt"] in ([], [60], [1], [100000]) and s["extra"] in ([], ["et=z"]) and s["doc"] is None and s["cf"] is None
    elif op in ("delete", "get"):
        s["pick"] = draw(st.integers(0, 9))
        s["target"] = draw(st.sampled_from(["live"] * 5 + ["any"]))
    elif op == "advance":
        s["dt"] = draw(st.sampled_from([1, 1, 30, "lt-1", "lt+14", "lt+16", "lt+16", 100000]))
        s["pick"] = draw(st.integers(0, 9))
    else:
        s["lookup_filter"] = draw(st.sampled_from([None, "ep=e1", "ep=e*", "ep=nope", "d=d1", "et=x", "et=*", "rt=temp", "rt=li*", "rt=nope"]))
    return s


@st.composite
def _case(draw):
    steps = draw(st.lists(_step(), min_size=2, max_size=22))
    # most histories start from one or two live registrations, so that updates, failed writes and expiries have a target
    pre = []
    for ep in draw(st.sampled_from([[], ["e1"], ["e1"], ["e1", "e2"]])):
        pre.append({"op": "register", "ep": ep, "d": None, "lt": draw(st.sampled_from([[], [60], [1]])), "base": None, "extra": [], "doc": "one", "cf": 40, "client": 1, "valid": True})
    return {"steps": pre + steps}


def selftest():
    assert links_of("two") == [("/s/t", [("rt", "temp")]), ("/s/l", [("rt", "light"), ("if", "sensor")])]
    # an oracle that cannot fail is useless: break re-registration bookkeeping
    import aiocoap.cli.rd as rdmod

    orig = rdmod.CommonRD._new_pathtail
    rdmod.CommonRD._new_pathtail = lambda self: ("1", "")
    try:
        reg = {"op": "register", "ep": "e1", "d": None, "lt": [], "base": None, "extra": [], "doc": "one", "cf": 40, "client": 1, "valid": True}
        out = run_case({"steps": [reg, dict(reg, ep="e2")]})
    finally:
        rdmod.CommonRD._new_pathtail = orig
    assert out.violations, "oracle cannot fail"


RULE = (
    "Histories of 2-22 steps on a real StandaloneResourceDirectory (through Context.render_to_pipe, stub remotes, virtual clock): register(ep in {e1,e2,e3,missing}, d in {none,d1}, "
    "lt in {none,60,1,100000,'abc',two values,-5,''}, base none/explicit, extra parameter in {none, et=x, et=y, rt=bad, count=1, page=1, href=/x, anchor=a, ep=dup, proxy=maybe}, body in "
    "{5 link-format documents, invalid UTF-8, garbage}, content-format 40/0/none), update by POST (parameters, with or without a body) and by PUT (parameters + links), DELETE, GET of a "
    "registration, time advance (1 s, 30 s, lt-1, lt+14, lt+16, 100000 s), filtered lookups. The reference model (dict (ep,d) -> location, links, parameters, base, expiry) applies a write only "
    "when it was answered 2.xx; requests generated as valid must be accepted. After every step: endpoint lookup (and with filter ep/d/et/rt, prefix*) and resource lookup (links resolved against "
    "the base, anchors) must list exactly the model's unexpired entries with the data of their latest successful write; GET of a registration returns its links; re-registration keeps the location, "
    "live registrations never share one; expiry at lt+15 s (never sampled within 0.5 s of the boundary). Non-trivial = history with a failed write on an existing registration, an expiry, or a "
    "re-registration. Distinct = SHA-1 of the case."
)


def build(tier):
    return CheckSpec(
        [Sub("histories", run_case, strategy=_case, budget={"quick": 1500, "thorough": 150000}, max_wall={"quick": 55, "thorough": 3600})],
        RULE,
        assumptions=[
            "the model is driven by the observed response class (2.xx applies, 4.xx must change nothing); only requests generated as plainly valid are required to succeed",
            "simple registration (POST /.well-known/rd) and the proxy function are not exercised",
            "lookup filters are limited to ep, d, et, rt with exact or prefix* values and no pagination",
        ],
        selftest=selftest,
    )
