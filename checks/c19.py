"""C19 -- file server confinement: every file-system access of every request stays inside the served directory;
nothing outside (and, without write permission, nothing at all) changes; block-wise GET returns the file's bytes."""

import asyncio
import builtins
import io
import logging
import mimetypes
import os
import shutil
import sys
import tempfile

from hypothesis import strategies as st

from vlib.runner import CheckSpec, Outcome, Sub, V, exc_key

ID = "C19"
LEVEL = "exploration"

_log = logging.getLogger("vp-c19")
_log.setLevel(100)

FILE_SIZES = [0, 1, 15, 16, 17, 31, 32, 33, 1023, 1024, 1025, 3000]

# --------------------------------------------------------------------------------------
# E6: file-system interposer (audit hook for open/listdir/scandir/rename/remove/mkdir/..., wrappers for stat)

_state = {"active": False, "log": None, "busy": False}
_AUDITED = {"open", "os.listdir", "os.scandir", "os.rename", "os.remove", "os.mkdir", "os.rmdir", "os.chmod", "os.truncate", "os.symlink", "os.link", "os.utime", "os.chown", "os.mkfifo", "os.mknod", "shutil.rmtree", "shutil.copyfile", "shutil.move", "tempfile.mkstemp", "tempfile.mkdtemp"}
_hook_installed = [False]


def _audit(event, args):
    if not _state["active"] or _state["busy"] or event not in _AUDITED:
        return
    log = _state["log"]
    for a in args[:2] if event in ("os.rename", "os.symlink", "os.link", "shutil.copyfile", "shutil.move") else args[:1]:
        if isinstance(a, (str, bytes, os.PathLike)):
            log.append((event, os.fsdecode(a)))


_real_stat, _real_lstat = os.stat, os.lstat


def _wrap(fn, name):
    def wrapper(path, *a, **kw):
        if _state["active"] and not _state["busy"] and isinstance(path, (str, bytes, os.PathLike)):
            _state["log"].append((name, os.fsdecode(path)))
        return fn(path, *a, **kw)

    return wrapper


class Monitor:
    def __enter__(self):
        if not _hook_installed[0]:
            sys.addaudithook(_audit)
            _hook_installed[0] = True
        self.log = []
        _state["log"] = self.log
        os.stat = _wrap(_real_stat, "os.stat")
        os.lstat = _wrap(_real_lstat, "os.lstat")
        _state["active"] = True
        return self

    def __exit__(self, *exc):
        _state["active"] = False
        os.stat, os.lstat = _real_stat, _real_lstat


def resolve(p, cwd):
    _state["busy"] = True
    try:
        if "\x00" in p:
            return None
        if not os.path.isabs(p):
            p = os.path.join(cwd, p)
        return os.path.realpath(p)
    finally:
        _state["busy"] = False


def snapshot(top):
    out = {}
    for d, dirs, files in os.walk(top):
        dirs.sort()
        out[d] = ("dir", None, None)
        for f in files:
            p = os.path.join(d, f)
            st_ = _real_lstat(p)
            with open(p, "rb") as fh:
                out[p] = ("file", fh.read(), st_.st_mtime_ns)
    return out


# --------------------------------------------------------------------------------------


class StubRemote:
    scheme = "coap"
    hostinfo = "client.example"
    hostinfo_local = "srv.example"
    is_multicast = False
    is_multicast_locally = False
    maximum_block_size_exp = 6
    maximum_payload_size = 1124
    blockwise_key = ("stub",)

    def as_response_address(self):
        return self


def file_bytes(n, salt):
    return bytes((i * 11 + salt) % 253 for i in range(n))


def make_sandbox(tree):
    base = tempfile.mkdtemp(prefix="vpc19-")
    root = os.path.join(base, "root")
    outside = os.path.join(base, "outside")
    os.makedirs(os.path.join(outside, "dir"))
    with open(os.path.join(outside, "canary"), "wb") as f:
        f.write(b"CANARY-outside")
    with open(os.path.join(outside, "dir", "canary2"), "wb") as f:
        f.write(b"CANARY2")
    os.makedirs(root)
    for i, (rel, size) in enumerate(tree):
        p = os.path.join(root, *rel)
        try:
            if size is None:
                os.makedirs(p, exist_ok=True)
            else:
                os.makedirs(os.path.dirname(p), exist_ok=True)
                if not os.path.isdir(p):
                    with open(p, "wb") as f:
                        f.write(file_bytes(size, i))
        except OSError:
            pass  # conflicting generated entries (a file where a directory is needed): skip
    return base, root, outside


def resolve_component_spec(spec, base, outside, tree=()):
    """symbolic path spec -> list of Uri-Path components"""
    out = []
    if spec and spec[0] == "$TREE":
        if not tree:
            return ["a"]
        rel, size = tree[spec[1] % len(tree)]
        return list(rel) + ([""] if size is None else []) + list(spec[2:])
    for c in spec:
        if c == "$ABS_CANARY":
            out += [""] + [x for x in os.path.join(outside, "canary").split("/") if x]
        elif c == "$ABS_NEW":
            out += [""] + [x for x in os.path.join(outside, "newfile").split("/") if x]
        elif c == "$ABS_DIR":
            out += [""] + [x for x in outside.split("/") if x] + [""]
        elif c == "$ABS_ETC":
            out += ["", "etc", "hostname"]
        elif c == "$LONG":
            out.append("n" * 300)
        else:
            out.append(c)
    return out


async def do_request(ctx, loop, method, path, options, payload):
    import aiocoap
    from aiocoap.message import Direction
    from aiocoap.pipe import Pipe

    m = aiocoap.Message(code=aiocoap.numbers.codes.Code(method), payload=payload)
    m.opt.uri_path = path
    for k, v in options.items():
        setattr(m.opt, k, v)
    m.direction = Direction.INCOMING
    m.remote = StubRemote()
    m.mid = 1
    m.mtype = aiocoap.numbers.types.Type.CON
    m.token = b"t"
    pipe = Pipe(m, _log)
    fut = loop.create_future()

    def on_event(ev):
        if not fut.done():
            fut.set_result(ev)
        return ev.message is not None and not ev.is_last and False

    pipe.on_event(on_event)
    ctx.render_to_pipe(pipe)
    ev = await asyncio.wait_for(fut, 5)
    return ev.message


def run_case(case):
    mimetypes.init()
    base, root, outside = make_sandbox([(tuple(r), s) for r, s in case["tree"]])
    loop = asyncio.new_event_loop()
    try:
        return loop.run_until_complete(_run(case, loop, base, root, outside))
    finally:
        loop.close()
        shutil.rmtree(base, ignore_errors=True)


async def _run(case, loop, base, root, outside):
    from pathlib import Path

    from aiocoap.cli.fileserver import FileServer
    from aiocoap.protocol import Context

    vio = []
    labels = set()
    write = case["write"]
    fs = FileServer(Path(root), _log, write=write)
    ctx = Context(loop=loop, serversite=fs, loggername="vp-c19.ctx")
    ctx.log.setLevel(100)
    cwd = os.getcwd()
    outside_before = snapshot(outside)
    last_etag = {}
    hostile = False
    for ri, rq in enumerate(case["requests"]):
        path = resolve_component_spec(rq["path"], base, outside, case["tree"])
        if any(c in ("", ".", "..") for c in path[:-1]) or any("/" in c or c in (".", "..") for c in path) or (path and path[0] == ""):
            hostile = True
        inside_before = snapshot(root)
        options = {}
        if rq.get("block2") is not None:
            options["block2"] = tuple(rq["block2"])
        if rq.get("if_none_match"):
            options["if_none_match"] = True
        if rq.get("observe") is not None:
            options["observe"] = rq["observe"]  # (on any method: the library then takes the observable-resource path)
        if rq.get("block1") is not None:
            options["block1"] = tuple(rq["block1"])
        if rq.get("if_match") is not None:
            im = rq["if_match"]
            options["if_match"] = [b"" if x == "empty" else (last_etag.get(tuple(path), b"\x01\x02") if x == "last" else bytes(x)) for x in im]
        if rq.get("etag") is not None:
            options["etags"] = [last_etag.get(tuple(path), b"zz") if rq["etag"] == "last" else b"qq"]
        payload = file_bytes(rq.get("plen", 0), 77 + ri) if rq["method"] in (2, 3, 5, 6) else b""
        try:
            "/".join(path).encode("utf-8")
        except UnicodeEncodeError:
            continue
        with Monitor() as mon:
            try:
                resp = await do_request(ctx, loop, rq["method"], path, options, payload)
            except Exception as e:
                vio.append(V("C19/request-raises/" + exc_key(e), "%r %r -> %r" % (rq["method"], path, e)))
                break
        code = int(resp.code)
        cls = code >> 5
        labels.add("m%d-%d.xx" % (rq["method"], cls))
        if code == 95:
            # 2.31 Continue: a non-final Block1 block was taken into the library's spool; nothing has been
            # executed yet (the interposer below still sees every file-system access of this step)
            cls = 0
            labels.add("block1-continue")
        # 1. every path touched resolves inside the root
        for event, p in mon.log:
            rp = resolve(p, cwd)
            if rp is None:
                continue
            if not (rp == root or rp.startswith(root + os.sep)):
                # interpreter noise unrelated to the request (zoneinfo, locale, .pyc) is not expected here; report everything
                vio.append(V("C19/access-outside-root/" + event, "request %d method %d Uri-Path %r: %s(%r) resolves to %r, root is %r; response %s" % (ri, rq["method"], path, event, p, rp, root, resp.code)))
                break
        # 2. the world outside is unchanged; without write permission the inside too
        outside_after = snapshot(outside)
        if outside_after != outside_before:
            changed = sorted(set(outside_after.items()) ^ set(outside_before.items()), key=lambda kv: kv[0])
            vio.append(V("C19/outside-modified", "request %d method %d Uri-Path %r changed %r (response %s)" % (ri, rq["method"], path, [k for k, _ in changed][:3], resp.code)))
            outside_before = outside_after
        inside_after = snapshot(root)
        if not os.path.isdir(root):
            # the directory the server was started with is not itself one of the objects inside it
            vio.append(V("C19/root-directory-removed", "request %d method %d Uri-Path %r (response %s): the served directory is gone" % (ri, rq["method"], path, resp.code)))
            break
        if not write and inside_after != inside_before:
            vio.append(V("C19/modified-without-write-permission", "request %d method %d Uri-Path %r (response %s)" % (ri, rq["method"], path, resp.code)))
        elif (code >> 5) in (4, 5) and inside_after != inside_before:
            # "answered with an error response and has no effect" (a spool file left behind is an effect, too)
            changed = sorted(set(inside_after) ^ set(inside_before)) or sorted(k for k in inside_after if inside_after[k] != inside_before.get(k))
            vio.append(V("C19/error-response-but-tree-modified", "request %d method %d Uri-Path %r answered %s, yet the served tree changed: %r" % (ri, rq["method"], path, resp.code, [os.path.relpath(k, root) for k in changed][:3])))
        # 3. functional sanity of what happened inside (reference: plain join of well-behaved components)
        wellbehaved = bool(path) and all(c and "/" not in c and c not in (".", "..") and "\x00" not in c and len(c) < 200 for c in path)
        target = os.path.join(root, *path) if wellbehaved else None
        if cls == 2 and not wellbehaved and path and not (rq["method"] == 1 and all(c and "/" not in c and c not in (".", "..") and "\x00" not in c for c in path[:-1]) and path[-1] == ""):
            if rq["method"] == 1 and path == [".well-known", "core"]:
                pass
            elif any("/" in c or c in (".", "..") for c in path) or path[0] == "" or "\x00" in "".join(path):
                vio.append(V("C19/hostile-path-succeeds", "request %d method %d Uri-Path %r -> %s" % (ri, rq["method"], path, resp.code)))
        if wellbehaved and target:
            if rq["method"] == 3 and code == 68:  # PUT 2.04
                if not write:
                    vio.append(V("C19/put-succeeds-without-write-permission", repr(path)))
                elif inside_after.get(target, (None, None))[1] != payload:
                    vio.append(V("C19/put-content-differs", "%r" % path))
                if resp.opt.etag:
                    last_etag[tuple(path)] = bytes(resp.opt.etag)
            if rq["method"] == 4 and code == 66:
                if not write:
                    vio.append(V("C19/delete-succeeds-without-write-permission", repr(path)))
                elif target in inside_after:
                    vio.append(V("C19/delete-leaves-file", repr(path)))
            if rq["method"] == 1 and code == 69 and inside_before.get(target, ("x",))[0] == "file" and path != [".well-known", "core"]:
                body = inside_before[target][1]
                b2 = rq.get("block2") or (0, False, 6)
                size = 2 ** (b2[2] + 4)
                want = body[b2[0] * size : b2[0] * size + size]
                if bytes(resp.payload) != want:
                    vio.append(V("C19/get-returns-wrong-bytes", "Uri-Path %r block %r: %d bytes, file slice has %d" % (path, b2, len(resp.payload), len(want))))
                if resp.opt.etag:
                    last_etag[tuple(path)] = bytes(resp.opt.etag)
        if rq["method"] in (3, 4) and not write and cls == 2:
            vio.append(V("C19/write-method-succeeds-without-permission", "%r -> %s" % (path, resp.code)))
    if hostile:
        labels.add("hostile-path")
    labels.add("write" if write else "read-only")
    return Outcome(vio, sorted(labels), hostile)


def bsize(szx):
    """RFC 7959 block size; SZX 7 is RFC 8323 BERT, whose NUM still counts 1024-byte blocks"""
    return 1024 if szx == 7 else 2 ** (szx + 4)


def run_blockget(case):
    """a file fetched block by block with any block size is byte-identical to the file"""
    mimetypes.init()
    base, root, outside = make_sandbox([(("f.bin",), case["size"]), (("d", "g.txt"), case["size"])])
    loop = asyncio.new_event_loop()
    try:
        return loop.run_until_complete(_blockget(case, loop, root))
    finally:
        loop.close()
        shutil.rmtree(base, ignore_errors=True)


async def _blockget(case, loop, root):
    from pathlib import Path

    from aiocoap.cli.fileserver import FileServer
    from aiocoap.protocol import Context

    vio = []
    fs = FileServer(Path(root), _log, write=False)
    ctx = Context(loop=loop, serversite=fs, loggername="vp-c19.ctx")
    ctx.log.setLevel(100)
    nblocks = 0
    for path, salt in ((["f.bin"], 0), (["d", "g.txt"], 1)):
        want = file_bytes(case["size"], salt)
        szx = case["szx"]
        size = bsize(szx)
        got = b""
        num = 0
        etags = set()
        first = True
        while True:
            opts = {} if (first and not case.get("explicit_first", True)) else {"block2": (num, False, szx)}
            if case.get("stale_etag") and (num > 0 or case["stale_etag"] == "all"):
                # a client that revalidates a cached (by now outdated) representation puts its ETag into every block
                # request; as it does not match, the file is simply served
                opts["etags"] = [b"stale-1"]
            resp = await do_request(ctx, loop, 1, path, opts, b"")
            if int(resp.code) != 69:
                vio.append(V("C19/blockwise-get-fails", "%r size %d szx %d block %d -> %s" % (path, case["size"], szx, num, resp.code)))
                break
            b2 = resp.opt.block2
            got += bytes(resp.payload)
            nblocks += 1
            if resp.opt.etag:
                etags.add(bytes(resp.opt.etag))
            if b2 is None:
                # a response without Block2 is the complete representation
                if num != 0:
                    vio.append(V("C19/blockwise-get-missing-block-option", "%r block %d" % (path, num)))
                break
            if b2.block_number != num or (opts and b2.size_exponent != szx):
                vio.append(V("C19/blockwise-get-wrong-block-option", "%r asked (%d,%d) got %r" % (path, num, szx, tuple(b2))))
                break
            szx = b2.size_exponent  # continue at the size the server used (only relevant after an implicit first request)
            size = bsize(szx)
            expect_more = (num + 1) * size < len(want)
            if bool(b2.more) != expect_more:
                vio.append(V("C19/blockwise-get-more-flag", "%r size %d szx %d block %d: M=%s, bytes remain=%s" % (path, case["size"], szx, num, b2.more, expect_more)))
                break
            if not b2.more:
                break
            num += 1
            first = False
        if got != want and not vio:
            vio.append(V("C19/blockwise-get-differs-from-file", "%r size %d szx %d: reassembled %d bytes" % (path, case["size"], szx, len(got))))
        if len(etags) > 1:
            vio.append(V("C19/blockwise-get-etag-changes", repr(etags)))
    return Outcome(vio, ["szx=%d" % case["szx"]], nblocks > 2)


def run_rewrite(case):
    """block-by-block reads around a replacement of the file: an abandoned (or completed) transfer, then PUT or
    DELETE+PUT, then a complete transfer -- which must return the file as it is now"""
    mimetypes.init()
    base, root, outside = make_sandbox([(("f.bin",), case["size1"])])
    loop = asyncio.new_event_loop()
    try:
        return loop.run_until_complete(_rewrite(case, loop, root))
    finally:
        loop.close()
        shutil.rmtree(base, ignore_errors=True)


async def _rewrite(case, loop, root):
    from pathlib import Path

    from aiocoap.cli.fileserver import FileServer
    from aiocoap.protocol import Context

    vio = []
    fs = FileServer(Path(root), _log, write=True)
    ctx = Context(loop=loop, serversite=fs, loggername="vp-c19.ctx")
    ctx.log.setLevel(100)
    path = ["f.bin"]
    szx = case["szx"]
    for num in range(case["pre"]):
        resp = await do_request(ctx, loop, 1, path, {"block2": (num, False, szx)}, b"")
        if int(resp.code) != 69 or resp.opt.block2 is None or not resp.opt.block2.more:
            break
    new = file_bytes(case["size2"], 9)
    if case["how"] == "delete+put":
        resp = await do_request(ctx, loop, 4, path, {}, b"")
        if int(resp.code) != 66:
            vio.append(V("C19/delete-fails", str(resp.code)))
    resp = await do_request(ctx, loop, 3, path, {}, new)
    if (int(resp.code) >> 5) != 2:
        vio.append(V("C19/put-fails", str(resp.code)))
        return Outcome(vio, [case["how"]], False)
    with open(os.path.join(root, "f.bin"), "rb") as f:
        on_disk = f.read()
    if on_disk != new:
        vio.append(V("C19/put-content-differs", "%d bytes on disk, %d sent" % (len(on_disk), len(new))))
    szx2 = case["szx2"]
    got = b""
    num = 0
    while True:
        resp = await do_request(ctx, loop, 1, path, {"block2": (num, False, szx2)}, b"")
        if int(resp.code) != 69:
            vio.append(V("C19/blockwise-get-fails", "after the file was replaced: block %d -> %s" % (num, resp.code)))
            break
        got += bytes(resp.payload)
        b2 = resp.opt.block2
        if b2 is None or not b2.more:
            break
        num += 1
        if num > 400:
            vio.append(V("C19/blockwise-get-never-ends", ""))
            break
    if not vio and got != on_disk:
        first = next((i for i, (a_, b_) in enumerate(zip(got, on_disk)) if a_ != b_), min(len(got), len(on_disk)))
        vio.append(V("C19/blockwise-get-differs-from-file", "after %s (%d -> %d bytes, %d block(s) of the old file fetched before at szx %d): reassembled %d bytes, first difference at %d" % (case["how"], case["size1"], case["size2"], case["pre"], szx, len(got), first)))
    return Outcome(vio, [case["how"], "pre=%d" % case["pre"]], case["pre"] >= 1)


def cases_rewrite():
    for size1 in (40, 1025, 3000):
        for size2 in (0, 33, 1025, 3000):
            for szx in (0, 2, 6):
                for szx2 in (0, 6):
                    for pre in (0, 1, 2, 1000):
                        for how in ("put", "delete+put"):
                            yield {"size1": size1, "size2": size2, "szx": szx, "szx2": szx2, "pre": pre, "how": how}


def cases_blockget():
    for size in FILE_SIZES + [64, 65, 2048, 2049, 5000]:
        for szx in range(8):
            for explicit in (True, False):
                yield {"size": size, "szx": szx, "explicit_first": explicit}
            if szx in (0, 2, 6):
                for stale in ("later", "all"):
                    yield {"size": size, "szx": szx, "explicit_first": True, "stale_etag": stale}


# --------------------------------------------------------------------------------------

NAMES = ["a", "b", "f.bin", "d", "g.txt", "sub", "ä", "x y"]
HOSTILE = ["", ".", "..", "a/b", "/", "\x00", "..%2f", "%2e%2e", "../outside", "/etc", "$LONG", "a\x00b", "outside", "canary", "...", "~"]


@st.composite
def _path_spec(draw):
    kind = draw(st.sampled_from(["normal", "normal", "existing", "existing", "hostile", "hostile", "abs", "dotdot", "dir", "special-last"]))
    if kind == "special-last":
        # a harmless (possibly empty) prefix and a last component with a special character: the path resolves inside the
        # root, the operation on it may still fail half-way
        return draw(st.lists(st.sampled_from(["d", "sub", "a"]), max_size=2)) + [draw(st.sampled_from(["\x00", "a\x00b", "nul\x00", "\x00.txt", "x y", "ä", "~", "...", "$LONG"]))]
    if kind == "existing":
        return ["$TREE", draw(st.integers(0, 5))] + draw(st.sampled_from([[], [], [], ["new.txt"], [""]]))
    if kind == "normal":
        return draw(st.lists(st.sampled_from(NAMES), min_size=0, max_size=3))
    if kind == "dir":
        return draw(st.lists(st.sampled_from(NAMES), min_size=0, max_size=2)) + [""]
    if kind == "abs":
        return [draw(st.sampled_from(["$ABS_CANARY", "$ABS_NEW", "$ABS_DIR", "$ABS_ETC"]))]
    if kind == "dotdot":
        return draw(st.lists(st.sampled_from(NAMES), max_size=2)) + [".."] * draw(st.integers(1, 3)) + draw(st.lists(st.sampled_from(["outside", "canary", "dir", "canary2"]), max_size=2))
    return draw(st.lists(st.sampled_from(NAMES + HOSTILE + HOSTILE), min_size=1, max_size=7))


@st.composite
def _case(draw):
    tree = []
    # (small trees matter: a directory whose only content is one nested file)
    for _ in range(draw(st.sampled_from([0, 1, 1, 1, 2, 3, 4, 5, 6]))):
        rel = draw(st.lists(st.sampled_from(NAMES), min_size=1, max_size=3))
        tree.append([rel, draw(st.one_of(st.none(), st.sampled_from(FILE_SIZES)))])
    reqs = []
    for _ in range(draw(st.integers(1, 8))):
        rq = {"method": draw(st.sampled_from([1, 1, 1, 3, 3, 4, 4, 2, 5, 6])), "path": draw(_path_spec())}
        if rq["method"] in (3, 2, 5, 6):
            rq["plen"] = draw(st.sampled_from([0, 1, 16, 100, 1124]))
        if draw(st.integers(0, 3)) == 0:
            rq["block2"] = [draw(st.integers(0, 4)), False, draw(st.integers(0, 6))]
        if draw(st.integers(0, 5)) == 0:
            rq["if_none_match"] = True
        if draw(st.integers(0, 4)) == 0:
            rq["if_match"] = draw(st.lists(st.sampled_from(["empty", "last", [1, 2, 3]]), min_size=1, max_size=2))
        if draw(st.integers(0, 5)) == 0:
            rq["etag"] = draw(st.sampled_from(["last", "other"]))
        if draw(st.integers(0, 4)) == 0:
            rq["observe"] = draw(st.sampled_from([0, 0, 1]))
        if rq["method"] in (2, 3, 5, 6) and draw(st.integers(0, 5)) == 0:
            rq["block1"] = [draw(st.sampled_from([0, 0, 1])), draw(st.booleans()), draw(st.sampled_from([0, 2, 6]))]
        reqs.append(rq)
    return {"tree": tree, "write": draw(st.booleans()), "requests": reqs}


def selftest():
    # the interposer must see a stat and an open outside the root, and the snapshot must notice a change
    base, root, outside = make_sandbox([(("a",), 3)])
    try:
        with Monitor() as mon:
            os.stat(os.path.join(outside, "canary"))
            with open(os.path.join(outside, "canary"), "rb") as f:
                f.read()
            from pathlib import Path

            list(Path(root).iterdir())
            Path(root, "a").stat()
        events = {e for e, _ in mon.log}
        assert "os.stat" in events and "open" in events and ("os.listdir" in events or "os.scandir" in events), events
        assert any(resolve(p, "/") == os.path.join(outside, "canary") for _, p in mon.log)
        s1 = snapshot(outside)
        with open(os.path.join(outside, "new"), "wb") as f:
            f.write(b"x")
        assert snapshot(outside) != s1
    finally:
        shutil.rmtree(base, ignore_errors=True)


RULE = (
    "histories: a fresh sandbox per case (<tmp>/outside/{canary,dir/canary2} and <tmp>/root with a generated tree of files of sizes {0,1,15,16,17,31,32,33,1023,1024,1025,3000} and directories), "
    "a FileServer on <tmp>/root with write on/off, and 1-8 requests through Context.render_to_pipe: method GET/PUT/DELETE/POST/FETCH/PATCH, Uri-Path lists over names and a hostile alphabet ('', '.', '..', "
    "'a/b', '/', NUL, '..%2f', '%2e%2e', long names, the components of the absolute path of the outside canary / a new outside file / the outside directory / /etc/hostname behind a leading empty component, "
    "dot-dot runs), If-Match / If-None-Match / ETag, Observe 0/1 on any method, Block1, Block2 (num, szx), payloads. Oracle: a file-system interposer (audit hook for open/listdir/scandir/rename/remove/mkdir/... plus os.stat/lstat wrappers) "
    "records every path touched during each request -- each must resolve (realpath) inside the root; a snapshot (names, contents, mtimes) of everything outside the root is unchanged, and with write off the inside too; "
    "hostile paths never yield 2.xx; successful PUT/DELETE/GET on well-behaved paths have the expected effect/content. rewrite: complete enumeration of (old size, new size, szx before, szx after, 0/1/2/all blocks of the old file fetched before, PUT or DELETE+PUT): the block-by-block read after the replacement equals the file as it is now. blockget: complete enumeration of file size x szx 0-7 (7 = BERT, 1024-byte units) x explicit/implicit first block: the "
    "reassembled blocks equal the file, M set exactly while bytes remain, one ETag. Non-trivial = history with a hostile path (empty non-final or leading component, dot segment, separator); blockget with > 2 blocks. "
    "Distinct = SHA-1 of the case."
)


def build(tier):
    return CheckSpec(
        [
            Sub("histories", run_case, strategy=_case, budget={"quick": 1500, "thorough": 150000}, max_wall={"quick": 55, "thorough": 3600}),
            Sub("blockget", run_blockget, cases=cases_blockget, exhaustive=True),
            Sub("rewrite", run_rewrite, cases=cases_rewrite, exhaustive=True),
        ],
        RULE,
        assumptions=[
            "symlinks placed inside the root by someone else are out of scope (the statement quantifies over request contents)",
            "the interposer sees path-taking calls made through the os / io / builtins modules (pathlib resolves them there); fd-relative calls are not used by the file server",
            "scratch directories live under the system temp dir and are removed after every case",
        ],
        selftest=selftest,
    )
