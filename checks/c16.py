"""C16 -- URIs: RFC 7252 6.4 decomposition / 6.5 composition, rejection classes, host/port split and join."""

import ipaddress

from hypothesis import strategies as st

from vlib.runner import CheckSpec, Outcome, Sub, V, exc_key

ID = "C16"
LEVEL = "exploration"

SCHEMES = ["coap", "coaps", "coap+tcp", "coaps+tcp", "coap+ws", "coaps+ws"]
UNRESERVED = "abcdefghijklmnopqrstuvwxyzABCDEFGHIJKLMNOPQRSTUVWXYZ0123456789-._~"
SUB_DELIMS = "!$&'()*+,;="
HEX = "0123456789ABCDEF"


# --------------------------------------------------------------------------------------
# independent encoding helpers (RFC 3986)


def pct(ch, lower=False):
    out = "".join("%%%02X" % b for b in ch.encode("utf-8"))
    return out.lower().replace("%", "%") if lower else out


def encode_component(text, literal_ok, choices):
    """percent-encode `text`; characters in literal_ok may stay literal; `choices` (list of ints) decides per character
    whether an allowed character is nevertheless escaped (1) and whether hex digits are lower case (2)"""
    out = []
    for i, ch in enumerate(text):
        c = choices[i % len(choices)] if choices else 0
        if ch in literal_ok and not (c & 1):
            out.append(ch)
        else:
            e = "".join("%%%02X" % b for b in ch.encode("utf-8"))
            out.append(e.lower() if c & 2 else e)
    return "".join(out)


def ascii_lower(s):
    return "".join(chr(ord(c) + 32) if "A" <= c <= "Z" else c for c in s)


def pct_decode(s):
    out = bytearray()
    i = 0
    while i < len(s):
        if s[i] == "%" and i + 2 < len(s) + 0 and all(c in "0123456789abcdefABCDEF" for c in s[i + 1 : i + 3]) and len(s[i + 1 : i + 3]) == 2:
            out.append(int(s[i + 1 : i + 3], 16))
            i += 3
        else:
            out += s[i].encode("utf-8")
            i += 1
    return out.decode("utf-8")


def norm_host(h):
    """host text as it may appear in a hostinfo: compare modulo percent-encoding and ASCII case"""
    try:
        return ascii_lower(pct_decode(h))
    except UnicodeDecodeError:
        return ascii_lower(h)


def split_hostinfo(hostinfo):
    """independent split of host[:port] / [v6][:port] -> (host, port text or None)"""
    if hostinfo.startswith("["):
        end = hostinfo.index("]")
        host = hostinfo[1:end]
        rest = hostinfo[end + 1 :]
        return host, (rest[1:] if rest.startswith(":") else None)
    if ":" in hostinfo:
        host, port = hostinfo.rsplit(":", 1)
        return host, port
    return hostinfo, None


# --------------------------------------------------------------------------------------
# G1: URIs from a grammar, with the expected decomposition known by construction

_seg_text = st.one_of(
    st.text(alphabet="abcXYZ019-._~", max_size=6),
    st.text(alphabet="aZ/?#[]@!$&'()*+,;=:%\" <>\\^`{|}", max_size=5),
    st.text(alphabet=st.characters(codec="utf-8", exclude_categories=["Cs", "Cc"]), max_size=5),
    st.sampled_from(["", "%2F", "a/b", "a&b", "k=v", "100%", "%", "%41", "ä", "€uro", "~", "a b", "+"]),
)
_choices = st.lists(st.integers(0, 3), min_size=1, max_size=6)


@st.composite
def _authority(draw):
    kind = draw(st.sampled_from(["name", "name", "name", "ipv4", "lookalike", "ipv6", "ipv6zone"]))
    a = {"kind": kind}
    if kind == "name":
        text = draw(st.one_of(
            st.text(alphabet="abcXYZ019-._~", min_size=1, max_size=12),
            st.text(alphabet="aB0-._~!$&'()*+,;=", min_size=1, max_size=8),
            st.text(alphabet=st.characters(codec="utf-8", exclude_categories=["Cs", "Cc"]), min_size=1, max_size=5),
            st.sampled_from(["example.com", "EXAMPLE.com", "localhost", "a%b", "a%41", "x/y", "h@st", "h:1", "[x]", "sp ace", "ÄÖ", "::[", "[::1", "::1]", "[1.2.3.4", "]", "[", "fe80::1%eth0]"]),
        ))
        a["decoded"] = text
        a["text"] = encode_component(text, UNRESERVED + SUB_DELIMS, draw(_choices))
    elif kind == "ipv4":
        a["text"] = ".".join(str(draw(st.integers(0, 255))) for _ in range(4))
    elif kind == "lookalike":
        a["text"] = draw(st.sampled_from(["1.2.3", "1.2.3.256", "1.2.3.", "1.2.3.4.5", "999.1.1.1", "1..2.3", "0x7f.0.0.1", "1.2.3.04x", ".1.2.3", "12345"]))
        a["decoded"] = a["text"]
    elif kind == "ipv6":
        a["text"] = "[" + draw(st.sampled_from(["::1", "0:0:0:0:0:0:0:1", "2001:DB8::1", "2001:db8:0:0:0:0:0:1", "::ffff:1.2.3.4", "fe80::1", "::", "FF02::FD"])) + "]"
    else:
        a["text"] = "[" + draw(st.sampled_from(["fe80::1", "FE80::2", "ff02::fd"])) + "%25" + draw(_zone) + "]"
    a["port"] = draw(st.sampled_from([None, None, "", "0", "5683", "5684", "65535", "05683", "1"]))
    return a


# zone identifiers: interface names and indices, among them ones that look like percent escapes once "%25" is in front
_zone = st.one_of(st.sampled_from(["eth0", "Eth0", "1", "wlan-0", "en.1", "25", "250", "25eth0", "2", "41", "2541"]), st.text(alphabet="abcefxyz0123456789-._", min_size=1, max_size=6))


@st.composite
def _uri_case(draw):
    scheme = draw(st.sampled_from(SCHEMES))
    scheme_text = "".join(c.upper() if draw(st.integers(0, 4)) == 0 else c for c in scheme)
    auth = draw(_authority())
    path = draw(st.lists(_seg_text, max_size=5))
    query = draw(st.lists(_seg_text, max_size=4))
    path = [s for s in path if s not in (".", "..")]
    return {
        "scheme": scheme_text,
        "auth": auth,
        "path": path,
        "path_style": draw(st.sampled_from(["slash", "slash", "none"])) if not path else "segments",
        "query": query,
        "choices": draw(_choices),
    }


def build_uri(c):
    a = c["auth"]
    netloc = a["text"] + ("" if a["port"] is None else ":" + a["port"])
    if c["path"]:
        path = "".join("/" + encode_component(s, UNRESERVED + SUB_DELIMS + ":@", c["choices"]) for s in c["path"])
    else:
        path = "/" if c["path_style"] == "slash" else ""
    uri = c["scheme"] + "://" + netloc + path
    if c["query"] and c["query"] != [""]:
        q = "&".join(encode_component(s, UNRESERVED + "!$'()*+,;=" + ":@/?", c["choices"][::-1]) for s in c["query"])
        uri += "?" + q
    return uri


def _is_ipv4_literal(text):
    parts = text.split(".")
    return len(parts) == 4 and all(p.isdigit() and p.isascii() and int(p) <= 255 for p in parts)


def expected_of(c):
    a = c["auth"]
    port = None if a["port"] in (None, "") else int(a["port"])
    if a["kind"] in ("name", "lookalike") and _is_ipv4_literal(a["text"]):
        # a generated "name" that is in fact a dotted quad is an IPv4address (RFC 3986 3.2.2: first match wins)
        uri_host = None
        host_norm = a["text"]
    elif a["kind"] in ("name", "lookalike"):
        uri_host = ascii_lower(a["decoded"])
        host_norm = ascii_lower(a["decoded"])
    elif a["kind"] == "ipv4":
        uri_host = None
        host_norm = a["text"]
    else:
        uri_host = None
        inner = a["text"][1:-1]
        addr, _, zone = inner.partition("%25")
        host_norm = str(ipaddress.ip_address(addr)) + (("%25" + zone) if zone else "")
    path = list(c["path"])
    if path == [""]:
        path = []  # the path "/" carries no Uri-Path option
    query = list(c["query"]) if c["query"] != [""] else []
    return dict(uri_host=uri_host, scheme=ascii_lower(c["scheme"]), host=host_norm, port=port, path=path, query=query)


def decompose(uri):
    from aiocoap import GET, Message

    m = Message(code=GET, uri=uri)
    return m


def observed_of(m):
    host, port = split_hostinfo(m.remote.hostinfo)
    return dict(
        uri_host=m.opt.uri_host,
        scheme=m.remote.scheme,
        host=host,
        port=None if port in (None, "") else int(port),
        path=list(m.opt.uri_path),
        query=list(m.opt.uri_query),
    )


def same_host(a, b):
    # RFC 7252 5.10.1: a Uri-Host value is a reg-name or an *IP-literal*, i.e. "[" address "]"; a reg-name that
    # percent-decodes to exactly that (coap://%5B%3A%3A%5D/) yields the same option value as the literal, so the two
    # URIs name one resource by the RFC's own algorithm (found by the thorough tier; not a defect of the library)
    if a.startswith("[") and a.endswith("]"):
        a = a[1:-1]
    if b.startswith("[") and b.endswith("]"):
        b = b[1:-1]
    try:
        za, zb = a.partition("%")[2], b.partition("%")[2]
        ia, ib = ipaddress.ip_address(a.partition("%")[0]), ipaddress.ip_address(b.partition("%")[0])
        return ia == ib and pct_decode(za) == pct_decode(zb) or ia == ib and za.replace("25", "", 1) == zb.replace("25", "", 1)
    except ValueError:
        return norm_host(a) == norm_host(b)


def host_matches(got_host, want, c):
    """got_host: host text out of a hostinfo (still percent-encoded for names); want['host']: decoded, lower-cased"""
    if c["auth"]["kind"] in ("name", "lookalike") and not _is_ipv4_literal(c["auth"]["text"]):
        return norm_host(got_host) == want["host"]
    return same_host(got_host, want["host"])


def run_uri(c):
    from aiocoap import error

    vio = []
    uri = build_uri(c)
    want = expected_of(c)
    labels = ["host-" + c["auth"]["kind"]]
    nontrivial = "%" in uri or any(ch.isupper() for ch in c["auth"]["text"])
    try:
        m = decompose(uri)
    except Exception as e:
        kind = "documented" if isinstance(e, (error.MalformedUrlError, error.IncompleteUrlError)) else "undocumented"
        return Outcome([V("C16/acceptable-uri-rejected/%s/%s" % (kind, exc_key(e)), "%r -> %r" % (uri, e))], labels + ["rejected"], nontrivial)
    got = observed_of(m)
    for k in ("uri_host", "scheme", "port", "path", "query"):
        if got[k] != want[k]:
            vio.append(V("C16/decomposition-differs/" + k, "%r: %s is %r, RFC 7252 6.4 gives %r" % (uri, k, got[k], want[k])))
    if not host_matches(got["host"], want, c):
        vio.append(V("C16/decomposition-differs/destination-host", "%r: %r vs %r" % (uri, got["host"], want["host"])))
    if vio:
        return Outcome(vio, labels, nontrivial)
    # 6.5 and back
    try:
        u2 = m.get_request_uri()
        m2 = decompose(u2)
        got2 = observed_of(m2)
        u3 = m2.get_request_uri()
    except Exception as e:
        return Outcome([V("C16/recompose-raises/" + exc_key(e), "%r -> %r" % (uri, e))], labels, nontrivial)
    for k in ("scheme", "port", "path", "query"):
        if got2[k] != want[k]:
            vio.append(V("C16/composed-uri-decomposes-differently/" + k, "%r -> %r: %s is %r, was %r" % (uri, u2, k, got2[k], want[k])))
    # the effective host: an absent Uri-Host defaults to the destination's IP literal (RFC 7252 5.10.1), so a name that
    # spells an IP address and that address are the same resource
    eff_want = want["uri_host"] if want["uri_host"] is not None else want["host"]
    eff_got = got2["uri_host"] if got2["uri_host"] is not None else got2["host"]
    if eff_got != eff_want and norm_host(eff_got) != eff_want and not same_host(eff_got, eff_want):
        vio.append(V("C16/composed-uri-decomposes-differently/uri_host", "%r -> %r: effective host is %r, was %r" % (uri, u2, eff_got, eff_want)))
    if u3 != u2:
        vio.append(V("C16/composition-not-a-fixed-point", "%r -> %r -> %r" % (uri, u2, u3)))
    if len(want["path"]) >= 2:
        labels.append("multi-segment")
    if want["query"]:
        labels.append("with-query")
    return Outcome(vio, labels, nontrivial)


# --------------------------------------------------------------------------------------
# G2: option sets -> URI -> option sets

_opt_text = st.one_of(
    st.text(alphabet="abc019-._~", max_size=6),
    st.text(alphabet=st.characters(codec="utf-8", exclude_categories=["Cs"]), max_size=6),
    st.sampled_from(["", ".", "..", "/", "a/b", "?", "#", "%", "%2F", "%41", "&", "=", "a&b=c", " ", "+", ":", "@", "\x00", "\n", "ä€𝄞"]),
)


@st.composite
def _optset_case(draw):
    path = draw(st.lists(_opt_text, max_size=5))
    query = draw(st.lists(_opt_text, max_size=4))
    if path == [""]:
        path = []
    if query == [""]:
        query = []
    host = draw(st.one_of(st.none(), st.text(alphabet="abc019-._~", min_size=1, max_size=10), st.text(alphabet="ab0-._~!$&'()*+,;=", min_size=1, max_size=6), st.sampled_from(["example.com", "a%b", "a%41", "ä.example", "x,y"])))
    hostinfo = draw(st.sampled_from(["example.net", "example.net:1234", "10.0.0.1", "10.0.0.1:61616", "[2001:db8::1]", "[2001:db8::1]:5684", "[fe80::1%25eth0]"]))
    return {"path": path, "query": query, "host": host, "hostinfo": hostinfo, "scheme": draw(st.sampled_from(SCHEMES))}


def _is_ip(text):
    try:
        ipaddress.ip_address(text.strip("[]").partition("%")[0])
        return True
    except ValueError:
        return False


def run_optset(c):
    from aiocoap import GET, Message
    from aiocoap.message import UndecidedRemote

    vio = []
    try:
        m = Message(code=GET)
        m.remote = UndecidedRemote(c["scheme"], c["hostinfo"])
        if c["host"] is not None:
            m.opt.uri_host = c["host"]
        m.opt.uri_path = c["path"]
        m.opt.uri_query = c["query"]
        u = m.get_request_uri()
    except Exception as e:
        return Outcome([V("C16/compose-raises/" + exc_key(e), "%r -> %r" % (c, e))], ["compose-raises"], True)
    try:
        m2 = Message(code=GET, uri=u)
    except Exception as e:
        return Outcome([V("C16/composed-uri-rejected/" + exc_key(e), "%r -> %r -> %r" % (c, u, e))], ["rejected"], True)
    if list(m2.opt.uri_path) != c["path"]:
        vio.append(V("C16/optionset-roundtrip/uri_path", "%r -> %r -> %r" % (c["path"], u, list(m2.opt.uri_path))))
    if list(m2.opt.uri_query) != c["query"]:
        vio.append(V("C16/optionset-roundtrip/uri_query", "%r -> %r -> %r" % (c["query"], u, list(m2.opt.uri_query))))
    eff = c["host"] if c["host"] is not None else None
    if eff is not None and m2.opt.uri_host != eff:
        # a Uri-Host that spells an IP address composes to an IP literal, which carries the same effective host
        dest = split_hostinfo(m2.remote.hostinfo)[0]
        if not (m2.opt.uri_host is None and same_host(dest, eff) and _is_ip(eff)):
            vio.append(V("C16/optionset-roundtrip/uri_host", "%r -> %r -> %r" % (eff, u, m2.opt.uri_host)))
    h1, p1 = split_hostinfo(c["hostinfo"])
    h2, p2 = split_hostinfo(m2.remote.hostinfo)
    if (p1 or None) != (p2 or None) or m2.remote.scheme != c["scheme"]:
        vio.append(V("C16/optionset-roundtrip/port-or-scheme", "%r -> %r -> %r" % (c["hostinfo"], u, m2.remote.hostinfo)))
    special = any(any(ch in s for ch in "/?#%&=") for s in c["path"] + c["query"])
    return Outcome(vio, ["special-chars"] if special else ["plain"], special or bool(c["path"] and c["query"]))


# --------------------------------------------------------------------------------------
# G3: rejection classes and arbitrary text


@st.composite
def _reject_case(draw):
    base = draw(_uri_case())
    flaw = draw(st.sampled_from(["no-scheme", "no-scheme-2", "no-host", "no-host-2", "no-host-3", "fragment", "userinfo", "userinfo-pw", "port-nonnumeric", "port-range", "bad-utf8-path", "bad-utf8-query", "bad-utf8-host", "bad-ipv6", "ipvfuture"]))
    base["auth"] = {"kind": "name", "decoded": "host.example", "text": "host.example", "port": draw(st.sampled_from([None, "5683"]))} if flaw in ("userinfo", "userinfo-pw", "bad-utf8-host", "port-nonnumeric", "port-range", "bad-ipv6", "ipvfuture") or draw(st.booleans()) else base["auth"]
    return {"base": base, "flaw": flaw, "extra": draw(st.sampled_from(["x", "frag", "a1", "%C3", "ä"])), "n": draw(st.integers(0, 5))}


def flawed_uri(c):
    base = c["base"]
    uri = build_uri(base)
    scheme, rest = uri.split("://", 1)
    flaw = c["flaw"]
    netloc, sep, tail = rest.partition("/")
    if "?" in netloc:
        netloc, _, q = netloc.partition("?")
        tail = "?" + q
        sep = ""
    tail = sep + tail
    a = base["auth"]
    if flaw == "no-scheme":
        return "//" + rest, "incomplete"
    if flaw == "no-scheme-2":
        return (tail or "/x"), "incomplete"
    if flaw == "no-host":
        return scheme + "://" + (tail if tail.startswith("/") else "/" + tail), "malformed"
    if flaw == "no-host-2":
        return scheme + ":/" + (tail.lstrip("/") or "x"), "malformed"
    if flaw == "no-host-3":
        return scheme + ":" + (tail.lstrip("/").replace("?", "") or "x"), "malformed"
    if flaw == "fragment":
        return uri + "#" + c["extra"], "malformed"
    if flaw == "userinfo":
        return scheme + "://user@" + rest, "malformed"
    if flaw == "userinfo-pw":
        return scheme + "://user:pw@" + rest, "malformed"
    if flaw == "port-nonnumeric":
        host = ["host.example", "[::1]", "10.0.0.1"][c["n"] % 3]
        return scheme + "://" + host + ":" + ["abc", "12a", "-1", "5683x", "0x10", "½"][c["n"] % 6] + tail, "malformed"
    if flaw == "port-range":
        host = ["host.example", "[::1]", "10.0.0.1"][c["n"] % 3]
        return scheme + "://" + host + ":" + ["65536", "99999", "100000000000"][c["n"] % 3] + tail, "malformed"
    if flaw == "bad-utf8-path":
        return scheme + "://" + netloc + "/" + ["%FF", "%C3%28", "a%80b", "%E2%82"][c["n"] % 4] + ("?" + tail.split("?", 1)[1] if "?" in tail else ""), "malformed"
    if flaw == "bad-utf8-query":
        return scheme + "://" + netloc + "/p?" + ["%FF", "k=%C3%28", "%80"][c["n"] % 3], "malformed"
    if flaw == "bad-utf8-host":
        return scheme + "://" + ["h%FFst", "%C3%28.example", "a%80"][c["n"] % 3] + tail, "malformed"
    if flaw == "bad-ipv6":
        return scheme + "://" + ["[::1", "[:::1]", "[12345::1]", "[1.2.3.4]", "[g::1]", "[]"][c["n"] % 6] + tail, "malformed"
    return scheme + "://" + ["[v1.x]", "[vF.a:b]"][c["n"] % 2] + tail, "either"


def run_reject(c):
    from aiocoap import GET, Message, error

    uri, want = flawed_uri(c)
    vio = []
    try:
        m = Message(code=GET, uri=uri)
    except error.IncompleteUrlError:
        outcome = "incomplete"
    except error.MalformedUrlError:
        outcome = "malformed"
    except Exception as e:
        return Outcome([V("C16/undocumented-exception/%s/%s" % (c["flaw"], exc_key(e)), "%r -> %r" % (uri, e))], [c["flaw"]], True)
    else:
        outcome = "accepted"
    if outcome == "accepted" and want != "either":
        vio.append(V("C16/unacceptable-uri-accepted/" + c["flaw"], "%r accepted: host %r path %r query %r" % (uri, m.opt.uri_host, m.opt.uri_path, m.opt.uri_query)))
    elif want in ("incomplete", "malformed") and outcome != want and not (want == "incomplete" and outcome == "malformed"):
        vio.append(V("C16/wrong-url-error/" + c["flaw"], "%r raised the %s error, documented: %s" % (uri, outcome, want)))
    return Outcome(vio, [c["flaw"], outcome], True)


@st.composite
def _arbitrary_case(draw):
    kind = draw(st.sampled_from(["text", "mut", "mut", "template"]))
    if kind == "text":
        return {"kind": kind, "uri": draw(st.text(min_size=1, max_size=30))}
    if kind == "template":
        parts = draw(st.lists(st.sampled_from(["coap", "coaps+tcp", ":", "//", "/", "?", "#", "@", "[", "]", "%", "%2", "%zz", "::1", "host", ".", "..", "&", "=", "5683", ":5683", "1.2.3.4", " ", "\t", "\n", "ä", "\x00", "http", "urn"]), max_size=9))
        return {"kind": kind, "uri": "".join(parts) or "coap:"}
    base = build_uri(draw(_uri_case()))
    muts = draw(st.lists(st.tuples(st.sampled_from(["set", "ins", "del"]), st.integers(0, 200), st.sampled_from(list(":/?#[]@%&= .\t\n0aZ~ä\x00"))).map(list), min_size=1, max_size=3))
    s = list(base)
    for op, pos, ch in muts:
        if not s:
            break
        p = pos % len(s)
        if op == "set":
            s[p] = ch
        elif op == "ins":
            s.insert(p, ch)
        else:
            del s[p]
    return {"kind": kind, "uri": "".join(s) or "x"}


import re

_PCT = r"%[0-9A-Fa-f]{2}"
_UNRES = r"A-Za-z0-9._~\-"
_SUB = r"!$&'()*+,;="
_RE_URI = re.compile(
    r"^[A-Za-z][A-Za-z0-9+.-]*://"
    r"(?:\[[0-9A-Fa-f:.]+(?:%25[" + _UNRES + r"]+)?\]|(?:[" + _UNRES + _SUB + r"]|" + _PCT + r")+)"
    r"(?::[0-9]*)?"
    r"(?:/(?:[" + _UNRES + _SUB + r":@/]|" + _PCT + r")*)?"
    r"(?:\?(?:[" + _UNRES + _SUB + r":@/?]|" + _PCT + r")*)?$"
)


def rfc3986_ok(uri):
    """syntactically a hierarchical RFC 3986 URI with a non-empty host and no user info / fragment"""
    return bool(_RE_URI.match(uri))


def run_arbitrary(c):
    from aiocoap import GET, Message, error

    uri = c["uri"]
    vio = []
    try:
        m = Message(code=GET, uri=uri)
    except (error.MalformedUrlError, error.IncompleteUrlError) as e:
        return Outcome([], [c["kind"], "rejected-" + type(e).__name__], False)
    except Exception as e:
        return Outcome([V("C16/undocumented-exception/arbitrary/" + exc_key(e), "%r -> %r" % (uri, e))], [c["kind"], "undocumented"], True)
    if m.opt.proxy_uri is not None:
        return Outcome([], [c["kind"], "proxy-uri"], False)
    clean = rfc3986_ok(uri)
    if clean:
        try:
            u2 = m.get_request_uri()
            m2 = Message(code=GET, uri=u2)
            u3 = m2.get_request_uri()
            if u3 != u2:
                vio.append(V("C16/composition-not-a-fixed-point", "%r -> %r -> %r" % (uri, u2, u3)))
            h1 = m.opt.uri_host if m.opt.uri_host is not None else split_hostinfo(m.remote.hostinfo)[0]
            h2 = m2.opt.uri_host if m2.opt.uri_host is not None else split_hostinfo(m2.remote.hostinfo)[0]
            if list(m2.opt.uri_path) != list(m.opt.uri_path) or list(m2.opt.uri_query) != list(m.opt.uri_query) or (h1 != h2 and norm_host(h1) != norm_host(h2) and not same_host(h1, h2)):
                vio.append(V("C16/accepted-uri-does-not-roundtrip", "%r -> %r: %r/%r/%r vs %r/%r/%r" % (uri, u2, m.opt.uri_host, m.opt.uri_path, m.opt.uri_query, m2.opt.uri_host, m2.opt.uri_path, m2.opt.uri_query)))
        except Exception as e:
            vio.append(V("C16/accepted-uri-recompose-raises/" + exc_key(e), "%r -> %r" % (uri, e)))
    return Outcome(vio, [c["kind"], "accepted" + ("-clean" if clean else "-unclean")], clean)


# --------------------------------------------------------------------------------------
# G4: hostportsplit / hostportjoin


@st.composite
def _hostport_case(draw):
    kind = draw(st.sampled_from(["name", "ipv4", "ipv6", "ipv6zone"]))
    if kind == "name":
        h = draw(st.one_of(st.text(alphabet="abc019-._~", min_size=1, max_size=12), st.sampled_from(["localhost", "example.com", "a-b.c"])))
    elif kind == "ipv4":
        h = ".".join(str(draw(st.integers(0, 255))) for _ in range(4))
    elif kind == "ipv6":
        h = draw(st.sampled_from(["::1", "2001:db8::1", "::", "fe80::1", "::ffff:1.2.3.4", "2001:db8:0:0:0:0:0:1"]))
    else:
        h = draw(st.sampled_from(["fe80::1", "ff02::fd"])) + "%" + draw(_zone)
    return {"host": h, "port": draw(st.one_of(st.none(), st.sampled_from([0, 1, 5683, 65535]), st.integers(0, 65535))), "bracketed": draw(st.booleans())}


def run_hostport(c):
    from aiocoap.util import hostportjoin, hostportsplit

    vio = []
    h = c["host"]
    arg = "[%s]" % h if (c["bracketed"] and ":" in h) else h
    try:
        joined = hostportjoin(arg, c["port"])
        back = hostportsplit(joined)
    except Exception as e:
        return Outcome([V("C16/hostport-raises/" + exc_key(e), "%r %r -> %r" % (h, c["port"], e))], ["raises"], True)
    if back != (h, c["port"]):
        vio.append(V("C16/hostport-roundtrip", "(%r, %r) -> %r -> %r" % (h, c["port"], joined, back)))
    want_joined = ("[%s]" % h if ":" in h else h) + ("" if c["port"] is None else ":%d" % c["port"])
    if joined != want_joined:
        vio.append(V("C16/hostport-join", "%r != %r" % (joined, want_joined)))
    return Outcome(vio, ["v6" if ":" in h else "name-or-v4", "port" if c["port"] is not None else "no-port"], ":" in h or c["port"] is not None)


def selftest():
    global expected_of
    assert pct_decode("%7Ea%2f") == "~a/" and ascii_lower("HÄ") == "hÄ"
    c = {"scheme": "CoAp", "auth": {"kind": "name", "decoded": "HoSt", "text": "HoSt", "port": "1234"}, "path": ["a", "b c"], "path_style": "segments", "query": ["k=v"], "choices": [0]}
    assert build_uri(c) == "CoAp://HoSt:1234/a/b%20c?k=v", build_uri(c)
    assert expected_of(c) == dict(uri_host="host", scheme="coap", host="host", port=1234, path=["a", "b c"], query=["k=v"])
    # examples of RFC 7252 6.5 / tests/test_uri_handling.py
    c = {"scheme": "coap", "auth": {"kind": "name", "decoded": "host", "text": "host", "port": None}, "path": ["~sensors"], "path_style": "segments", "query": [], "choices": [1]}
    assert build_uri(c) == "coap://host/%7E%73%65%6E%73%6F%72%73", build_uri(c)
    real = expected_of
    expected_of = lambda c: dict(real(c), path=["wrong"])
    try:
        out = run_uri(c)
    finally:
        expected_of = real
    assert out.violations, "oracle cannot fail"


RULE = (
    "uri: URIs built from a grammar (six schemes in mixed case; host = reg-name over unreserved/sub-delims/percent-encoded incl. upper case, '%25', non-ASCII | IPv4 | IPv4 look-alikes | "
    "[IPv6] in several spellings | [IPv6%25zone]; port none/empty/0/5683/65535/leading zero; 0-5 path segments and 0-4 query items over Unicode with reserved characters percent-encoded, every "
    "character optionally over-escaped with upper or lower hex) -- the expected RFC 7252 6.4 decomposition is known by construction (encoder written independently): Uri-Host = ASCII-lower-cased decoded "
    "reg-name / absent for IP literals, scheme, port with the destination, decoded segments; then get_request_uri() must decompose to the same values and be a fixed point. optset: option sets (path/query "
    "over Unicode incl. '/', '?', '#', '%', '&', '=', '.', '..'; optional Uri-Host; 7 destinations) compose -> decompose to the same options. reject: each listed rejection class injected into a valid URI "
    "(no scheme, no host, fragment, user info, non-numeric / out-of-range port, non-UTF-8 escapes in path/query/host, broken IPv6 literal) must raise the documented URL errors. arbitrary: random text, "
    "token soup and 1-3 character mutations of valid URIs: only MalformedUrlError/IncompleteUrlError may be raised; accepted URIs made of RFC 3986 characters round-trip. hostport: "
    "hostportsplit(hostportjoin(h, p)) == (h, p) for names, IPv4, IPv6, IPv6 with zone (mixed case), p none or 0-65535. Non-trivial = uri with a percent escape or upper-case host; optset with reserved "
    "characters or both path and query; every reject case; arbitrary text that was accepted and is RFC 3986-clean; hostport with IPv6 or a port. Distinct = SHA-1 of the case."
)


def build(tier):
    return CheckSpec(
        [
            Sub("uri", run_uri, strategy=_uri_case, budget={"quick": 8000, "thorough": 600000}, max_wall={"quick": 50, "thorough": 3600}),
            Sub("optset", run_optset, strategy=_optset_case, budget={"quick": 6000, "thorough": 450000}, max_wall={"quick": 50, "thorough": 3600}),
            Sub("reject", run_reject, strategy=_reject_case, budget={"quick": 4000, "thorough": 180000}, max_wall={"quick": 50, "thorough": 3600}),
            Sub("arbitrary", run_arbitrary, strategy=_arbitrary_case, budget={"quick": 8000, "thorough": 600000}, max_wall={"quick": 50, "thorough": 3600}),
            Sub("hostport", run_hostport, strategy=_hostport_case, budget={"quick": 3000, "thorough": 150000}, max_wall={"quick": 40, "thorough": 3600}),
        ],
        RULE,
        assumptions=[
            "dot segments ('.', '..') are not generated in the uri subcheck: RFC 3986 dot-segment removal is not among the obligations the statement enumerates (they are generated in optset, where aiocoap's own round trip must hold)",
            "raw non-ASCII host names (IRIs) are generated percent-encoded only",
            "strings containing characters RFC 3986 forbids outright (controls, space, non-ASCII, \"<>\\^`{|}) are only checked for the exception class",
            "empty user info ('@host') and empty fragment ('#') are not in the must-reject set",
        ],
        selftest=selftest,
    )
