"""C12 -- OSCORE replay protection: the bare replay window against a set model, and a context pair over the wire with
reordered / repeated / forged requests; Echo-based recovery of an uninitialised window."""

from hypothesis import strategies as st

from vlib import oscoreenv as E
from vlib import refcodec as R
from vlib.runner import CheckSpec, Outcome, Sub, V, exc_key

ID = "C12"
LEVEL = "exploration"


# --------------------------------------------------------------------------------------
# (a) the bare window


class RefWindow:
    """the statement's model: a set of numbers seen and the window size"""

    def __init__(self, size):
        self.size = size
        self.seen = set()
        self.floor = 0  # everything below is gone for good (initialize_from_freshlyseen)

    def must_reject(self, n):
        if n in self.seen or n < self.floor:
            return True
        if self.seen and n < max(self.seen) - self.size + 1:
            return True
        return False

    def must_accept(self, n):
        return n >= self.floor and (not self.seen or n > max(self.seen)) and n not in self.seen

    def strike(self, n):
        self.seen.add(n)


def run_window(c):
    oscore = E.setup()
    vio = []
    size = c["size"]
    w = oscore.ReplayWindow(size, lambda: None)
    ref = RefWindow(size)
    if c["init"][0] == "empty":
        w.initialize_empty()
    else:
        k = c["init"][1]
        w.initialize_from_freshlyseen(k)
        ref.floor = k + 1
        ref.seen.add(k)
    jumped = False
    inwindow = 0
    for si, (op, rel, arg) in enumerate(c["ops"]):
        mx = max(ref.seen) if ref.seen else ref.floor - 1
        if rel == "seen":
            n = sorted(ref.seen)[arg % len(ref.seen)] if ref.seen else 0
        elif rel == "below":
            n = max(0, mx - size - arg % 5)
        elif rel == "edge":
            n = max(0, mx - size + 1 + (arg % 3) - 1)
        elif rel == "inwindow":
            n = max(0, mx - (arg % max(size, 1)))
        elif rel == "next":
            n = mx + 1
        elif rel == "above":
            n = mx + 1 + arg % 4
        else:  # jump
            n = mx + size + arg % (2 * size + 3)
            jumped = True
        if op == "persist":
            try:
                p = w.persist()
                w = oscore.ReplayWindow(size, lambda: None)
                w.initialize_from_persisted(p)
            except Exception as e:
                vio.append(V("C12/window-persist-raises/" + exc_key(e), repr(e)))
                break
            continue
        try:
            valid = w.is_valid(n)
        except Exception as e:
            vio.append(V("C12/window-is_valid-raises/" + exc_key(e), "is_valid(%d): %r" % (n, e)))
            break
        if ref.must_reject(n) and valid:
            why = "seen before" if n in ref.seen else "below the window" if n >= ref.floor else "not later than the freshly seen number"
            vio.append(V("C12/window-accepts-" + why.replace(" ", "-"), "step %d: is_valid(%d) is True; size %d, seen %r" % (si, n, size, sorted(ref.seen)[-8:])))
            break
        if ref.must_accept(n) and not valid:
            vio.append(V("C12/window-rejects-number-above-everything-seen", "step %d: is_valid(%d) is False; size %d, seen %r" % (si, n, size, sorted(ref.seen)[-8:])))
            break
        if not ref.must_reject(n) and not ref.must_accept(n):
            inwindow += 1
        if op == "strike":
            if valid:
                try:
                    w.strike_out(n)
                except Exception as e:
                    vio.append(V("C12/window-strike_out-raises/" + exc_key(e), "strike_out(%d) after is_valid said True: %r" % (n, e)))
                    break
                ref.strike(n)
            else:
                try:
                    w.strike_out(n)
                    vio.append(V("C12/window-strike_out-of-invalid-number-succeeds", str(n)))
                    break
                except ValueError:
                    pass
                except Exception as e:
                    vio.append(V("C12/window-strike_out-raises/" + exc_key(e), repr(e)))
                    break
        # invariant over a neighbourhood
        for probe in list(range(max(0, mx - size - 2), mx + 3)):
            v = w.is_valid(probe)
            if ref.must_reject(probe) and v:
                vio.append(V("C12/window-invariant/accepts-what-must-be-rejected", "after step %d: is_valid(%d) True; size %d seen %r" % (si, probe, size, sorted(ref.seen)[-8:])))
                break
            if ref.must_accept(probe) and not v:
                vio.append(V("C12/window-invariant/rejects-what-must-be-accepted", "after step %d: is_valid(%d) False; size %d seen %r" % (si, probe, size, sorted(ref.seen)[-8:])))
                break
        if vio:
            break
    return Outcome(vio, ["size=%d" % min(size, 33), "jump" if jumped else "nojump"], jumped or inwindow >= 2)


_rel = st.sampled_from(["seen", "below", "edge", "inwindow", "inwindow", "next", "next", "above", "jump"])


@st.composite
def _window_case(draw):
    return {
        "size": draw(st.sampled_from([1, 2, 3, 8, 31, 32, 33, 64])),
        "init": draw(st.one_of(st.just(["empty", 0]), st.tuples(st.just("fresh"), st.sampled_from([0, 1, 5, 1000, 2**40 - 5])).map(list))),
        "ops": draw(st.lists(st.tuples(st.sampled_from(["valid?", "strike", "strike", "strike", "persist"]), _rel, st.integers(0, 1000)).map(list), min_size=1, max_size=40)),
    }


# --------------------------------------------------------------------------------------
# (b) context pair over the wire


def build_request(i):
    import aiocoap

    m = aiocoap.Message(code=aiocoap.GET, payload=b"req-%d" % i)
    m.opt.uri_path = ("r", str(i))
    return m


def deliver(server, data, request_id=None):
    """-> ("accepted", index payload) | ("rejected", exc) | ("other", exc)"""
    from aiocoap import Message
    from aiocoap.message import Direction

    oscore = E.setup()
    try:
        m = Message.decode(data)
        m.direction = Direction.INCOMING
        _, _, unprotected, _ = server._extract_encrypted0(m)
        ctx = server.get_oscore_context_for(unprotected)
        if ctx is None:
            return ("rejected", "no context")
        inner, rid = ctx.unprotect(m)
        return ("accepted", bytes(inner.payload), rid)
    except oscore.ReplayErrorWithEcho as e:
        return ("echo", e)
    except oscore.ProtectionInvalid as e:
        return ("rejected", e)
    except Exception as e:
        return ("other", e)


def run_wire(c):
    vio = []
    labels = set()
    size = c["window"]
    secret = b"0123456789abcdef"

    def run(with_forgeries):
        client = E.make_context("AES-CCM-16-64-128", b"\x01", b"\x02", None, b"salt", secret, seq=c["start"])
        server = E.make_context("AES-CCM-16-64-128", b"\x02", b"\x01", None, b"salt", secret, window=size)
        msgs = []
        seqs = []
        notifs = []
        rid_s = None
        if c.get("both_roles"):
            # the receiving context is a client of the same peer as well: an observation of its own is outstanding, and the
            # peer's notifications carry Partial IVs from the same counter as its requests.  Unprotecting a response --
            # however old -- must leave the replay window for requests alone.
            import aiocoap
            from aiocoap import Message
            from aiocoap.message import Direction

            own = aiocoap.Message(code=aiocoap.GET, payload=b"")
            own.opt.observe = 0
            outer_s, rid_s = server.protect(own)
            w_s, _ = E.over_the_wire(outer_s, mid=900)
            _, rid_at_client = client.unprotect(w_s)
        for i, gap in enumerate(c["gaps"]):
            client.sender_sequence_number += gap
            if rid_s is not None and i % 4 == 0:
                nm = aiocoap.Message(code=aiocoap.CONTENT, payload=b"notif-%d" % i)
                nm.opt.observe = i + 1
                outer_n, _ = client.protect(nm, rid_at_client)
                notifs.append(E.over_the_wire(outer_n, mid=1000 + i)[1])
            seqs.append(client.sender_sequence_number)
            outer, _ = client.protect(build_request(i))
            _, data = E.over_the_wire(outer, mid=i)
            msgs.append(data)
        outcomes = []
        accepted = set()
        for ev in c["arrivals"]:
            if ev[0] == "response":
                if not notifs:
                    continue
                wn = Message.decode(notifs[ev[1] % len(notifs)])
                wn.direction = Direction.INCOMING
                before = server.recipient_replay_window.persist()
                try:
                    server.unprotect(wn, rid_s)
                except Exception:
                    pass  # (whether an old notification still verifies is not this property's business)
                after = server.recipient_replay_window.persist()
                labels.add("response-in-between")
                if before != after:
                    vio.append(V("C12/response-changes-replay-window", "window %r -> %r after unprotecting one of the peer's notifications" % (before, after)))
                continue
            if ev[0] == "auth":
                i = ev[1] % len(msgs)
                res = deliver(server, msgs[i])
                n = seqs[i]
                outcomes.append(("auth", i, res[0]))
                if res[0] == "other":
                    vio.append(V("C12/unprotect-raises/" + exc_key(res[1]), repr(res[1])))
                    continue
                if res[0] == "accepted":
                    if res[1] != b"req-%d" % i:
                        vio.append(V("C12/wrong-plaintext", repr(res[1])))
                    if n in accepted:
                        vio.append(V("C12/sequence-number-accepted-twice", "seq %d (message %d); window %d; accepted so far %r" % (n, i, size, sorted(accepted)[-8:])))
                    elif accepted and n < max(accepted) - size + 1:
                        vio.append(V("C12/number-below-window-accepted", "seq %d, max %d, window %d" % (n, max(accepted), size)))
                    accepted.add(n)
                else:
                    if not accepted or n > max(accepted):
                        if n not in accepted:
                            vio.append(V("C12/authentic-number-above-everything-seen-rejected", "seq %d rejected (%r); accepted so far %r; window %d%s" % (n, res[1], sorted(accepted)[-8:], size, "; forgeries were delivered before" if with_forgeries else "")))
            elif with_forgeries:
                kind, i, arg = ev[0], ev[1] % len(msgs), ev[2]
                f = R.decode(msgs[i])
                opt = dict(f["options"])[9]
                if kind == "flip":
                    if not f["payload"]:
                        continue
                    b = bytearray(f["payload"])
                    b[arg % len(b)] ^= 1 << (arg % 8)
                    forged = R.encode(dict(f, payload=bytes(b)))
                else:  # "piv": old ciphertext under another (possibly still unused, higher) sequence number
                    pivlen = opt[0] & 7
                    newn = (seqs[arg % len(seqs)] if kind == "piv-other" else max(seqs) + 1 + arg % 5)
                    newpiv = newn.to_bytes(5, "big").lstrip(b"\0") or b"\0"
                    newopt = bytes([(opt[0] & 0xF8) | len(newpiv)]) + newpiv + opt[1 + pivlen :]
                    if newopt == opt:
                        continue
                    forged = R.encode(dict(f, options=sorted([(n_, r_) for n_, r_ in f["options"] if n_ != 9] + [(9, newopt)], key=lambda o: o[0])))
                res = deliver(server, forged)
                labels.add("forgery-" + kind)
                if res[0] == "accepted":
                    vio.append(V("C12/forgery-accepted/" + kind, "forged copy of message %d" % i))
                elif res[0] == "other":
                    vio.append(V("C12/forgery-raises/" + exc_key(res[1]), repr(res[1])))
        return [o for o in outcomes if o[0] == "auth"]

    plain = run(False)
    if any(e[0] != "auth" for e in c["arrivals"]):
        forged = run(True)
        if plain != forged and not vio:
            diff = next((i for i, (a_, b_) in enumerate(zip(plain, forged)) if a_ != b_), None)
            vio.append(V("C12/forgery-changes-fate-of-authentic-messages", "authentic arrival #%s: %r without forgeries, %r with" % (diff, plain[diff] if diff is not None else None, forged[diff] if diff is not None else None)))
    idx = [e[1] % len(c["gaps"]) for e in c["arrivals"] if e[0] == "auth"]
    reordered = any(b_ < a_ for a_, b_ in zip(idx, idx[1:]))
    repeated = len(set(idx)) < len(idx)
    if reordered:
        labels.add("reordered")
    if repeated:
        labels.add("repeated")
    labels.add("window=%d" % size)
    return Outcome(vio, sorted(labels), reordered or repeated)


@st.composite
def _wire_case(draw):
    n = draw(st.integers(1, 40))
    gaps = [draw(st.sampled_from([0, 0, 0, 0, 1, 2, 40, 100])) for _ in range(n)]
    arrivals = draw(
        st.lists(
            st.one_of(
                st.tuples(st.just("auth"), st.integers(0, n - 1)).map(list),
                st.tuples(st.just("auth"), st.integers(0, n - 1)).map(list),
                st.tuples(st.just("auth"), st.integers(0, n - 1)).map(list),
                st.tuples(st.sampled_from(["flip", "piv-other", "piv-new"]), st.integers(0, n - 1), st.integers(0, 1000)).map(list),
            ),
            min_size=1,
            max_size=120,
        )
    )
    case = {"window": draw(st.sampled_from([1, 2, 8, 32, 64])), "start": draw(st.sampled_from([0, 0, 5, 255, 2**32 - 3])), "gaps": gaps, "arrivals": arrivals}
    if draw(st.integers(0, 2)) == 0:
        case["both_roles"] = True
        extra = draw(st.lists(st.tuples(st.integers(0, len(arrivals)), st.integers(0, 20)), min_size=1, max_size=6))
        for pos, j in sorted(extra, reverse=True):
            arrivals.insert(pos, ["response", j])
    return case


# --------------------------------------------------------------------------------------
# (b') a Group OSCORE member with several senders: one replay window per security context (per sender)

_GROUP = {}
GROUP_WINDOW = 32  # SimpleGroupContext builds ReplayWindow(32, ...) per peer
GROUP_IDS = [b"", b"\x01", b"\x02", b"\x0a\x0b"]  # receiver first


def _group_material():
    """key material once per process (deterministic: private keys are hashes of the member index)"""
    if _GROUP:
        return _GROUP
    import hashlib

    oscore = E.setup()

    class Det(oscore.Ed25519):
        seed = b""

        def _generate(self):
            return hashlib.sha256(b"c12-group-member-" + self.seed).digest()

    det = Det()
    mat = []
    for i in range(len(GROUP_IDS)):
        det.seed = b"%d" % i
        mat.append(det.generate_with_ccs())
    _GROUP.update(mat=mat, sig=oscore.Ed25519(), pka=oscore.EcdhSsHkdf256())
    return _GROUP


def make_group_member(i, n):
    oscore = E.setup()
    g = _group_material()
    alg = oscore.algorithms[oscore.DEFAULT_ALGORITHM]
    return oscore.SimpleGroupContext(
        alg,
        oscore.hashfunctions[oscore.DEFAULT_HASHFUNCTION],
        g["sig"],
        alg,
        g["pka"],
        b"G",
        b"0123456789abcdef",
        b"salt",
        GROUP_IDS[i],
        g["mat"][i][0],
        g["mat"][i][1],
        {GROUP_IDS[j]: g["mat"][j][1] for j in range(n) if j != i},
        b"dummy gm credential",
        group_manager_cred_fmt="dummy",
    )


def deliver_group(server, data):
    """-> ("accepted", payload, kid of the context that took it) | ("rejected", exc).  Whatever a group aspect raises
    counts as a failed unprotection (the statement says "fails", not how)."""
    from aiocoap import Message
    from aiocoap.message import Direction

    try:
        m = Message.decode(data)
        m.direction = Direction.INCOMING
        _, _, unprotected, _ = server._extract_encrypted0(m)
        ctx = server.get_oscore_context_for(unprotected)
        if ctx is None:
            return ("rejected", "no context")
        inner, rid = ctx.unprotect(m)
        return ("accepted", bytes(inner.payload), ctx.recipient_id)
    except Exception as e:
        return ("rejected", e)


def run_group(c):
    vio = []
    labels = set()
    nsend = c["senders"]
    n = nsend + 1

    def run(with_forgeries):
        server = make_group_member(0, n)
        senders = [make_group_member(i, n) for i in range(1, n)]
        msgs = []  # (sender index, sequence number, wire bytes, mode)
        for k, (si, gap, mode) in enumerate(c["sent"]):
            si %= nsend
            snd = senders[si]
            snd.sender_sequence_number += gap
            seq = snd.sender_sequence_number
            ctx = snd if mode == "group" else snd.pairwise_for(GROUP_IDS[0])
            import aiocoap

            req = aiocoap.Message(code=aiocoap.GET, payload=b"req-%d" % k)
            req.opt.uri_path = ("r", str(k))
            outer, _ = ctx.protect(req)
            _, data = E.over_the_wire(outer, mid=k)
            msgs.append((si, seq, data, mode))
        accepted = [set() for _ in range(nsend)]
        outcomes = []
        for ev in c["arrivals"]:
            k = ev[1] % len(msgs)
            si, seq, data, mode = msgs[k]
            if ev[0] == "auth":
                res = deliver_group(server, data)
                outcomes.append((k, res[0]))
                acc = accepted[si]
                if res[0] == "accepted":
                    if res[1] != b"req-%d" % k:
                        vio.append(V("C12/group/wrong-plaintext", repr(res[1])))
                    if res[2] != GROUP_IDS[si + 1]:
                        vio.append(V("C12/group/accepted-under-another-senders-context", "message of %r taken by the context with %r" % (GROUP_IDS[si + 1], res[2])))
                    if seq in acc:
                        vio.append(V("C12/group/sequence-number-accepted-twice", "sender %d seq %d (%s mode); accepted from it so far %r" % (si, seq, mode, sorted(acc)[-8:])))
                    elif acc and seq < max(acc) - GROUP_WINDOW + 1:
                        vio.append(V("C12/group/number-below-window-accepted", "sender %d seq %d, max %d" % (si, seq, max(acc))))
                    acc.add(seq)
                    labels.add("accepted-" + mode)
                else:
                    labels.add("rejected:" + (type(res[1]).__name__ if isinstance(res[1], Exception) else "no-context"))
                    if (not acc or seq > max(acc)) and seq not in acc:
                        others = {j: sorted(a)[-4:] for j, a in enumerate(accepted) if j != si}
                        vio.append(
                            V(
                                "C12/group/authentic-number-above-everything-seen-rejected",
                                "sender %d seq %d (%s mode) rejected (%r); accepted from this sender so far %r, from the other senders %r%s"
                                % (si, seq, mode, res[1], sorted(acc)[-8:], others, "; forgeries were delivered before" if with_forgeries else ""),
                            )
                        )
            elif with_forgeries:
                kind, arg = ev[0], ev[2]
                f = R.decode(data)
                opt = dict(f["options"])[9]
                if kind == "flip":
                    b = bytearray(f["payload"])
                    b[arg % len(b)] ^= 1 << (arg % 8)
                    forged = R.encode(dict(f, payload=bytes(b)))
                else:
                    # the OSCORE option of a group request: flags | PIV | s | kid context | kid
                    pivlen = opt[0] & 7
                    rest = opt[1 + pivlen :]
                    if kind == "kid":  # the same ciphertext under another member's key ID (a sender, or the receiver itself)
                        ctxlen = rest[0]
                        other = GROUP_IDS[(si + 1 + 1 + arg % max(nsend - 1, 1)) % n] if nsend > 1 else GROUP_IDS[0]
                        if other == GROUP_IDS[si + 1]:
                            continue
                        newopt = opt[: 1 + pivlen] + rest[: 1 + ctxlen] + other
                    else:  # "piv": old ciphertext under a still unused, higher number
                        newn = max(m_[1] for m_ in msgs if m_[0] == si) + 1 + arg % 5
                        newpiv = newn.to_bytes(5, "big").lstrip(b"\0") or b"\0"
                        newopt = bytes([(opt[0] & 0xF8) | len(newpiv)]) + newpiv + rest
                    if newopt == opt:
                        continue
                    forged = R.encode(dict(f, options=sorted([(n_, r_) for n_, r_ in f["options"] if n_ != 9] + [(9, newopt)], key=lambda o: o[0])))
                res = deliver_group(server, forged)
                labels.add("forgery-" + kind)
                if res[0] == "accepted":
                    vio.append(V("C12/group/forgery-accepted/" + kind, "forged copy of message %d (sender %d, %s mode)" % (k, si, mode)))
        return outcomes

    plain = run(False)
    if any(e[0] != "auth" for e in c["arrivals"]):
        forged = run(True)
        if plain != forged and not vio:
            diff = next((i for i, (a_, b_) in enumerate(zip(plain, forged)) if a_ != b_), None)
            vio.append(V("C12/group/forgery-changes-fate-of-authentic-messages", "authentic arrival #%s: %r without forgeries, %r with" % (diff, plain[diff] if diff is not None else None, forged[diff] if diff is not None else None)))
    auth = [e[1] % len(c["sent"]) for e in c["arrivals"] if e[0] == "auth"]
    used = {c["sent"][k][0] % nsend for k in auth}
    seqs_by = {}
    tot = [0] * nsend
    for k, (si, gap, mode) in enumerate(c["sent"]):
        si %= nsend
        tot[si] += gap
        seqs_by.setdefault(si, {})[k] = tot[si]
        tot[si] += 1
    overlap = len(used) >= 2 and len({seqs_by[c["sent"][k][0] % nsend][k] for k in auth}) < len(set(auth))
    ranges = {}
    for k in auth:
        si = c["sent"][k][0] % nsend
        q = seqs_by[si][k]
        lo, hi = ranges.get(si, (q, q))
        ranges[si] = (min(lo, q), max(hi, q))
    rl = sorted(ranges.values())
    interfering = any(b_[0] <= a_[1] + GROUP_WINDOW for a_, b_ in zip(rl, rl[1:]))
    labels.add("senders=%d" % nsend)
    if overlap:
        labels.add("same-number-from-two-senders")
    if interfering:
        labels.add("number-ranges-of-two-senders-within-one-window")
    return Outcome(vio, sorted(labels), interfering)


@st.composite
def _group_case(draw):
    nsend = draw(st.sampled_from([1, 2, 2, 3]))
    n = draw(st.integers(2 * nsend, 30))
    sent = [[k % nsend if draw(st.booleans()) else draw(st.integers(0, nsend - 1)), draw(st.sampled_from([0, 0, 0, 0, 1, 2, 31, 40, 100])), draw(st.sampled_from(["group", "group", "pairwise"]))] for k in range(n)]
    arrivals = draw(
        st.lists(
            st.one_of(
                st.tuples(st.just("auth"), st.integers(0, n - 1)).map(list),
                st.tuples(st.just("auth"), st.integers(0, n - 1)).map(list),
                st.tuples(st.just("auth"), st.integers(0, n - 1)).map(list),
                st.tuples(st.sampled_from(["flip", "kid", "piv"]), st.integers(0, n - 1), st.integers(0, 1000)).map(list),
            ),
            min_size=2 * nsend,
            max_size=90,
        )
    )
    return {"senders": nsend, "sent": sent, "arrivals": arrivals}


# --------------------------------------------------------------------------------------
# (c) uninitialised window and Echo recovery


def run_echo(c):
    import aiocoap
    from aiocoap import Message
    from aiocoap.message import Direction

    oscore = E.setup()
    vio = []
    labels = set()
    secret = b"fedcba9876543210"
    client = E.make_context("AES-CCM-16-64-128", b"\x01", b"\x02", None, b"", secret, seq=c["start"])
    fresh = bytes(c["echo"])
    server = E.make_context("AES-CCM-16-64-128", b"\x02", b"\x01", None, b"", secret, window=32, initialized=False, echo=fresh)
    captured = []  # requests sent before the echo is known (an attacker may replay them later)
    accepted_before_echo = False
    initialized_by = None
    echoed = None
    seen_seq = set()
    for si, stp in enumerate(c["steps"]):
        kind = stp[0]
        if kind == "restart":
            # clean stop and restart of the server process: the window goes through persist() / JSON /
            # initialize_from_persisted() exactly as FilesystemSecurityContext._destroy and ._load pass it on, and the
            # new process issues Echo values of its own.  A window that was not initialised stays so; an
            # initialised one still knows every number it accepted.
            import hashlib
            import json

            try:
                p = json.loads(json.dumps(server.recipient_replay_window.persist()))
                w2 = oscore.ReplayWindow(32, lambda: None)
                w2.initialize_from_persisted(p)
            except Exception as e:
                vio.append(V("C12/window-persist-raises/" + exc_key(e), repr(e)))
                break
            server.recipient_replay_window = w2
            fresh = hashlib.sha256(fresh).digest()[:8]
            server.echo_recovery = fresh
            labels.add("restart-" + ("initialised" if initialized_by is not None else "uninitialised"))
            continue
        if kind == "replay":
            # any datagram sent so far may be replayed: those captured before recovery, the Echo-carrying request that
            # achieved it, and everything accepted afterwards
            if not captured:
                continue
            data, n = captured[stp[1] % len(captured)]
            res = deliver(server, data)
            labels.add("replay-of-captured")
            if n in seen_seq:
                labels.add("replay-of-accepted")
            if res[0] == "accepted":
                if initialized_by is None:
                    vio.append(V("C12/request-accepted-while-window-uninitialised", "replayed captured request seq %d" % n))
                elif n in seen_seq:
                    vio.append(V("C12/sequence-number-accepted-twice", "replay of the request with seq %d (accepted before%s) is accepted again" % (n, ", it carried the Echo value" if n == initialized_by else "")))
                elif n <= initialized_by:
                    vio.append(V("C12/old-request-accepted-after-recovery", "seq %d, window was initialised from seq %d" % (n, initialized_by)))
                else:
                    seen_seq.add(n)
            elif res[0] == "other":
                vio.append(V("C12/unprotect-raises/" + exc_key(res[1]), repr(res[1])))
            continue
        m = aiocoap.Message(code=aiocoap.GET, payload=b"x")
        if kind == "with-echo" and echoed is not None:
            m.opt.echo = echoed
        elif kind == "wrong-echo":
            m.opt.echo = bytes(stp[1]) if bytes(stp[1]) != fresh else fresh + b"x"
        outer, rid_c = client.protect(m)
        n = client.sender_sequence_number - 1
        _, data = E.over_the_wire(outer, mid=si)
        res = deliver(server, data)
        carries_fresh = m.opt.echo == fresh
        if res[0] == "other":
            vio.append(V("C12/unprotect-raises/" + exc_key(res[1]), repr(res[1])))
            break
        if initialized_by is None:
            if res[0] == "accepted":
                if not carries_fresh:
                    vio.append(V("C12/request-accepted-while-window-uninitialised", "step %d %r: no fresh Echo in the request" % (si, stp)))
                    accepted_before_echo = True
                initialized_by = n
                seen_seq.add(n)
                captured.append((data, n))
                labels.add("recovered")
            elif res[0] == "echo":
                if carries_fresh:
                    vio.append(V("C12/fresh-echo-not-honoured", "step %d" % si))
                # turn the 4.01 into something the client can read
                try:
                    resp = res[1].to_message()
                    wire, _ = E.over_the_wire(resp, mid=1000 + si)
                    inner, _ = client.unprotect(wire, rid_c)
                    if int(inner.code) != 129 or inner.opt.echo != fresh:
                        vio.append(V("C12/echo-challenge-wrong", "%s echo %r" % (inner.code, inner.opt.echo)))
                    echoed = inner.opt.echo
                    labels.add("challenged")
                except Exception as e:
                    vio.append(V("C12/echo-challenge-raises/" + exc_key(e), repr(e)))
                captured.append((data, n))
            else:
                if carries_fresh:
                    vio.append(V("C12/fresh-echo-not-honoured", "step %d: %r" % (si, res[1])))
                captured.append((data, n))
        else:
            if res[0] == "accepted":
                if n in seen_seq:
                    vio.append(V("C12/sequence-number-accepted-twice", str(n)))
                seen_seq.add(n)
                captured.append((data, n))
            else:
                vio.append(V("C12/authentic-number-above-everything-seen-rejected", "after recovery: seq %d rejected: %r" % (n, res[1:])))
    return Outcome(vio, sorted(labels), "recovered" in labels and "replay-of-captured" in labels)


@st.composite
def _echo_case(draw):
    steps = draw(st.lists(st.one_of(st.just(["plain"]), st.just(["plain"]), st.just(["with-echo"]), st.just(["with-echo"]), st.tuples(st.just("wrong-echo"), st.binary(min_size=1, max_size=8)).map(list), st.tuples(st.just("replay"), st.integers(0, 9)).map(list), st.just(["restart"])), min_size=1, max_size=14))
    return {"start": draw(st.sampled_from([0, 7, 300])), "echo": draw(st.binary(min_size=8, max_size=8)), "steps": steps}


def selftest():
    assert E.vector_selftest() == (21, 0)
    oscore = E.setup()
    orig = oscore.ReplayWindow.is_valid

    def bad(self, number):
        if number < self._index:
            return False
        return True  # forgets what it has seen

    oscore.ReplayWindow.is_valid = bad
    try:
        out = run_window({"size": 2, "init": ["empty", 0], "ops": [["strike", "next", 0], ["strike", "next", 0], ["strike", "jump", 0], ["valid?", "seen", 0], ["valid?", "seen", 1]]})
    finally:
        oscore.ReplayWindow.is_valid = orig
    assert out.violations, "oracle cannot fail"
    r = RefWindow(4)
    for n in (0, 1, 9):
        r.strike(n)
    assert r.must_reject(1) and r.must_reject(5) and not r.must_reject(6) and r.must_accept(10) and not r.must_accept(7)


RULE = (
    "window: the bare ReplayWindow (sizes 1,2,3,8,31,32,33,64; initialised empty or from a freshly seen number up to 2^40-5) under 1-40 symbolic operations is_valid / strike_out / persist+restore "
    "with the number chosen relative to a reference set model (already seen / below the window / at its edge / unseen inside / next / above / jump beyond one or more window sizes); after every operation "
    "is_valid is compared with the model on the whole neighbourhood [max-size-2, max+2]: numbers seen, below max-size+1 or not later than the freshly seen one must be invalid, numbers above everything seen valid. "
    "wire: a sender context protects 1-40 requests (sequence gaps 0,1,2,40,100; start 0..2^32-3) and they arrive in a generated order with repeats (up to 120 arrivals) at a receiver with window 1/2/8/32/64, "
    "interleaved with forgeries (bit-flipped copies, old ciphertext under another or a still unused higher partial IV): an authentic number is accepted at most once, never once it fell below the window, always "
    "when above everything accepted; forgeries are never accepted; and the accept/reject sequence of the authentic arrivals is identical with and without the forgeries (metamorphic). echo: a receiver whose window is "
    "uninitialised (Echo recovery value generated) sees plain requests, requests echoing the challenge, requests with a wrong Echo value, replays of captured requests and clean restarts of the receiving process (window through persist()/JSON/initialize_from_persisted(), new Echo value; an uninitialised window must stay uninitialised, an initialised one keeps rejecting what it accepted): nothing is accepted before a request carries "
    "the freshly issued value, the 4.01 challenge decrypts at the client and carries it, and afterwards captured requests stay rejected, as does a replay of the Echo-carrying request itself and of everything accepted since. "
    "group: a Group OSCORE member (SimpleGroupContext, window 32 per peer) receives up to 30 requests of 1-3 other members, each in group mode (countersigned) or pairwise mode, sequence gaps 0,1,2,31,40,100 per sender, "
    "in a generated order with repeats (up to 90 arrivals), interleaved with forgeries (bit flips, the ciphertext under another member's key ID, an old ciphertext under an unused higher partial IV): the three clauses are "
    "checked per sender (each sender is one security context with its own number space, shared by its group-mode and pairwise-mode requests), a message is only ever taken by the context of its sender, forgeries are never accepted and do not change the fate of the authentic arrivals. "
    "Non-trivial = a jump or >= 2 in-window probes (window); reordered or repeated "
    "arrivals (wire); authentic arrivals from at least two senders whose number ranges come within one window size of each other (group); recovery followed by a replay of a captured request (echo). Distinct = SHA-1 of the case."
)


def build(tier):
    E.setup()
    return CheckSpec(
        [
            Sub("window", run_window, strategy=_window_case, budget={"quick": 4000, "thorough": 500000}, max_wall={"quick": 50, "thorough": 3600}),
            Sub("wire", run_wire, strategy=_wire_case, budget={"quick": 800, "thorough": 100000}, max_wall={"quick": 55, "thorough": 3600}),
            Sub("group", run_group, strategy=_group_case, budget={"quick": 500, "thorough": 60000}, max_wall={"quick": 50, "thorough": 3600}),
            Sub("echo", run_echo, strategy=_echo_case, budget={"quick": 1000, "thorough": 100000}, max_wall={"quick": 50, "thorough": 3600}),
        ],
        RULE,
        assumptions=[
            "CPython 3.11 + system cryptography + cbor2/filelock shims (validated against the RFC 8613 vectors)",
            "group: Ed25519 to X25519 public key conversion through pure-Python ge25519/fe25519 stand-ins in shims/ (validated in every case: a pairwise-mode request only decrypts if both sides derive the same shared secret); whatever exception a group aspect raises counts as a failed unprotection",
            "acceptance of unseen numbers *inside* the window is not demanded by the statement; it is exercised but only the three stated clauses are asserted",
        ],
        selftest=selftest,
    )
