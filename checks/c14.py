"""C14 -- NSTART=1: per-remote FIFO queue of confirmable messages."""

import asyncio

from hypothesis import strategies as st

from vlib import refcodec as R
from vlib.runner import CheckSpec, Outcome, Sub, V
from vlib.simnet import ReqLog, SimNet

ID = "C14"
LEVEL = "exploration"

A = ("fd00::1", 5683)
REMOTES = [("fd00::2", 5683), ("fd00::3", 5683), ("fd00::2", 6002)]
EPS = 1e-6


def tuning(at, mr, reliable=None):
    from aiocoap.numbers.constants import TransportTuning

    class T(TransportTuning):
        ACK_TIMEOUT = at
        ACK_RANDOM_FACTOR = 1.0
        MAX_RETRANSMIT = mr
        reliability = reliable

    return T()


def make_site(net, specs):
    import aiocoap
    from aiocoap import resource

    class Slow(resource.Resource):
        async def needs_blockwise_assembly(self, request):
            return False

        async def render_get(self, request):
            k = int(request.opt.uri_query[0])
            sp = specs[k]
            await asyncio.sleep(sp["hdelay"])
            net.events.append((net.loop.time(), "submitted", k))
            return aiocoap.Message(payload=b"S%d" % k, transport_tuning=tuning(sp["at"], sp["mr"]))

    site = resource.Site()
    site.add_resource(["slow"], Slow())
    return site


def run_case(case, want_trace=False):
    from aiocoap import GET, Message, error

    subs = case["subs"]
    # fates: only "delivered after 1 ms" or "sendmsg() refused by the kernel" (reported synchronously from inside the send call)
    net = SimNet(fates=case.get("fates", ()), rng_seed=case.get("rng", 0))
    net._logger.setLevel(100)
    vio = []
    labels = set()
    try:
        a = net.add_context("A", *A, site=make_site(net, subs))

        def handler(peer, t, src, f, raw):
            if f is None or f["code"] == 0:
                return
            if 1 <= f["code"] < 32:
                path = R.opts(f, R.O_URI_PATH)
                k = int(path[0][1:])
                sp = subs[k]
                re = sp["reaction"]
                d = sp.get("d", 0.0)
                if f["type"] == R.CON:
                    if re == "piggy":
                        peer.send(src, R.msg(R.ACK, R.CONTENT, f["mid"], f["token"], payload=b"ok"), d)
                    elif re == "piggy_wrongtoken":
                        # acknowledges the message all the same; the response in it belongs to nobody
                        peer.send(src, R.msg(R.ACK, R.CONTENT, f["mid"], bytes(f["token"]) + b"\x00", payload=b"ok"), d)
                    elif re == "ack_sep":
                        peer.send(src, R.msg(R.ACK, 0, f["mid"]), d)
                        peer.send(src, R.msg(R.NON, R.CONTENT, peer.next_mid(), f["token"], payload=b"ok"), d + sp.get("d2", 0.0))
                    elif re == "rst":
                        peer.send(src, R.msg(R.RST, 0, f["mid"]), d)
                else:
                    if re != "silent":
                        peer.send(src, R.msg(R.NON, R.CONTENT, peer.next_mid(), f["token"], payload=b"ok"), d)
            elif f["type"] == R.CON and f["payload"].startswith(b"S"):
                k = int(f["payload"][1:])
                sp = subs[k]
                if sp["reaction"] in ("piggy", "ack_sep"):
                    peer.send(src, R.msg(R.ACK, 0, f["mid"]), sp.get("d", 0.0))
                elif sp["reaction"] == "rst":
                    peer.send(src, R.msg(R.RST, 0, f["mid"]), sp.get("d", 0.0))

        peers = [net.add_raw("r%d" % i, ip, port, handler=handler) for i, (ip, port) in enumerate(REMOTES)]
        log = ReqLog(net)
        items = {}

        def submit(k):
            sp = subs[k]
            if sp["kind"] == "req":
                m = Message(code=GET, transport_tuning=tuning(sp["at"], sp["mr"], reliable=sp["con"]))
                m.opt.uri_path = ("r%d" % k,)
                m.remote = a.remote(peers[sp["remote"]])
                net.events.append((net.loop.time(), "submitted", k))
                items[k] = log.start(a, m, tag=k)
            else:
                # server role: the peer asks, A's slow handler produces a separate CON response later
                p = peers[sp["remote"]]
                p.send(A, R.msg(R.CON, R.GET, 0x4000 + k, bytes([0xB0 + k]), [(R.O_URI_PATH, "slow"), (R.O_URI_QUERY, str(k))]))

        for k, sp in enumerate(subs):
            net.at(1.0 + sp["t"], submit, k)
        for er in case.get("errors", []):
            net.at(1.0 + er["t"], net.inject_error, a, REMOTES[er["remote"]])
        net.run_until(40.0)

        # ------------------------------ oracle ------------------------------------
        submitted = {}
        for e in net.events:
            if e[1] == "submitted":
                submitted.setdefault(e[2], (e[0], len(submitted)))
        # transport errors reported for a remote: ICMP-style through the error queue, or a send refused by the kernel
        # (time, remote, wire sequence number of the refused datagram or None)
        errors = [(e[0], e[3], None) for e in net.events if e[1] == "icmp-error"]
        errors += [(w["t"], w["dst"], w["seq"]) for w in net.wire if w.get("refused") and w["src"] == A]
        if any(sq is not None for _, _, sq in errors):
            labels.add("send-refused")
        wire = net.wire_fields()
        first = {}  # k -> (t_first, mid, type, remote)
        for w in wire:
            f = w["fields"]
            if w["src"] != A or f is None or f["code"] == 0:
                continue
            k = None
            if 1 <= f["code"] < 32:
                p = R.opts(f, R.O_URI_PATH)
                if p and p[0].startswith("r"):
                    k = int(p[0][1:])
            elif f["payload"].startswith(b"S") and f["type"] in (R.CON, R.NON):
                k = int(f["payload"][1:])
            if k is not None and k not in first:
                first[k] = (w["t"], f["mid"], f["type"], w["dst"], w["seq"])
        # end of every CON exchange
        ends = {}
        for k, (t0, mid, typ, dst, _) in first.items():
            if typ != R.CON:
                continue
            sp = subs[k]
            giveup = t0 + sp["at"] * (2 ** (sp["mr"] + 1) - 1)
            end = (giveup, "timeout")
            for d in net.deliveries:
                if d["to"] == "A" and d["src"] == dst and t0 - EPS <= d["t"] < end[0] - EPS:
                    try:
                        g = R.decode(d["data"])
                    except R.FormatError:
                        continue
                    if g["type"] in (R.ACK, R.RST) and g["mid"] == mid:
                        end = (d["t"], "ack" if g["type"] == R.ACK else "rst")
                        break
            for te, r, sq in errors:
                # (a refused send only concerns exchanges that were already under way, or whose own datagram it was)
                if r == dst and t0 - EPS <= te < end[0] - EPS and (sq is None or sq >= first[k][4]):
                    end = (te, "icmp")
            ends[k] = end
        # an exchange that has ended is over: no further copy of its message may go out (a zombie exchange would keep
        # the remote's single slot occupied)
        for k, (t0, mid, typ, dst, _) in first.items():
            if typ != R.CON:
                continue
            late = [w for w in wire if w["src"] == A and w["dst"] == dst and w["fields"] is not None and w["fields"]["mid"] == mid and w["fields"]["type"] == R.CON and w["t"] > ends[k][0] + EPS]
            if late:
                vio.append(V("C14/retransmission-after-exchange-ended", "CON %d to %s: exchange ended at %.6f by %s, yet a copy was sent at %.6f" % (k, dst, ends[k][0], ends[k][1], late[0]["t"])))
        per_remote = {}
        for k, (t0, mid, typ, dst, seq) in first.items():
            if typ == R.CON:
                per_remote.setdefault(dst, []).append((t0, seq, k))
        queued_max = 0
        for dst, lst in per_remote.items():
            lst.sort()
            for (ta, _, ka), (tb, _, kb) in zip(lst, lst[1:]):
                ea = ends[ka]
                if tb < ea[0] - EPS:
                    vio.append(V("C14/two-open-cons-to-one-remote", "to %s: message %d (first sent %.6f, open until %.6f by %s) and message %d first sent %.6f" % (dst, ka, ta, ea[0], ea[1], kb, tb)))
            # FIFO: order of first transmissions == submission order
            order_wire = [k for _, _, k in lst]
            order_sub = sorted(order_wire, key=lambda k: submitted.get(k, (1e9, 1e9)))
            if order_wire != order_sub:
                vio.append(V("C14/not-fifo", "to %s: transmitted in order %r, submitted in order %r" % (dst, order_wire, order_sub)))
        # promptness and none forgotten
        for k, sp in enumerate(subs):
            if k not in submitted:
                continue
            ts = submitted[k][0]
            dst = REMOTES[sp["remote"]]
            is_con = sp["con"] if sp["kind"] == "req" else True
            it = items.get(k)
            outcome = ReqLog.outcome(it) if it else (None, None)
            if not is_con:
                if k not in first:
                    if not (outcome[0] == "exception"):
                        vio.append(V("C14/non-not-transmitted", "submission %d %r" % (k, sp)))
                elif abs(first[k][0] - ts) > EPS:
                    vio.append(V("C14/non-delayed", "NON %d submitted %.6f, sent %.6f" % (k, ts, first[k][0])))
                continue
            # CON: find the exchanges to the same remote that were open/queued ahead of it
            ahead = [j for j in per_remote_keys(per_remote, dst) if submitted.get(j, (1e9, 0)) < submitted[k] and j != k]
            # the instant at which everything ahead has ended
            t_free = ts
            failed_ahead = None
            for j in sorted(ahead, key=lambda j: submitted[j]):
                if j in ends and ends[j][0] > ts - EPS:
                    if ends[j][1] in ("timeout", "icmp") and failed_ahead is None and first[j][0] <= ends[j][0]:
                        failed_ahead = ends[j]
                    t_free = max(t_free, ends[j][0])
            queued = t_free > ts + EPS
            if queued:
                queued_max += 1
            # also an ICMP error for this remote while queued/open kills it
            if k in first:
                if failed_ahead is not None and first[k][0] > failed_ahead[0] + EPS and sp["kind"] == "req":
                    # it should have been failed together with the exchange ahead of it; being sent later is "forgotten then revived"
                    pass
                want = t_free
                if failed_ahead is None and abs(first[k][0] - want) > EPS:
                    vio.append(V("C14/not-released-when-free", "CON %d to %s submitted %.6f, remote free at %.6f, first sent %.6f" % (k, dst, ts, want, first[k][0])))
            else:
                if sp["kind"] == "req":
                    if outcome[0] != "exception" or not isinstance(outcome[1], error.Error):
                        vio.append(V("C14/held-back-message-forgotten", "CON request %d to %s never transmitted and its future is %s %r" % (k, dst, outcome[0], outcome[1])))
                    elif failed_ahead is None and not any(r == dst and te >= ts - EPS for te, r, _ in errors):
                        vio.append(V("C14/failed-without-cause", "CON request %d never transmitted, failed with %r though nothing ahead of it failed" % (k, outcome[1])))
        # every request future: done, unless it is a NON (or acked CON) whose response never comes
        for k, it in items.items():
            kind, val = ReqLog.outcome(it)
            sp = subs[k]
            if kind == "pending":
                # (the fate list is shared: a "refused" fate consumed by the peer's own datagram is simply a lost reply)
                lost_from_peer = any(w["src"] == REMOTES[sp["remote"]] and w["fate"][0] in ("senderr", "drop") for w in net.wire)
                if sp["con"] and not lost_from_peer and not (k in ends and ends[k][1] == "ack" and sp["reaction"] not in ("piggy", "ack_sep")):
                    vio.append(V("C14/request-hangs", "request %d %r" % (k, sp)))
            elif kind == "exception" and not isinstance(val, error.Error):
                vio.append(V("C14/non-library-error/" + type(val).__name__, repr(val)))
        for t, msg, e, exc in net.loop_exceptions:
            vio.append(V("C14/loop-exception/" + type(exc).__name__, "%s %s" % (msg, e)))
        nq = 0
        for dst, lst in per_remote.items():
            for i, (tb, _, kb) in enumerate(lst):
                if i and submitted.get(kb, (0,))[0] < tb - EPS:
                    nq += 1
        labels.add("queued=%d" % min(nq, 3))
        for k in ends:
            labels.add("end-" + ends[k][1])
        if any(sp["kind"] == "resp" for sp in subs):
            labels.add("server-role")
        info = {"trace": net.trace()} if (want_trace or vio) else None
        return Outcome(vio, sorted(labels), nq >= 2, info)
    finally:
        for ep in list(net._contexts):
            try:
                net.shutdown_context(ep)
            except Exception:
                pass
        net.close()


def per_remote_keys(per_remote, dst):
    return [k for _, _, k in per_remote.get(dst, [])]


@st.composite
def _case(draw):
    n = draw(st.integers(2, 8))
    subs = []
    for _ in range(n):
        kind = draw(st.sampled_from(["req", "req", "req", "resp"]))
        sp = {
            "kind": kind,
            "t": draw(st.sampled_from([0.0, 0.0, 0.0, 0.0, 0.001, 0.2, 0.5, 1.0, 0.0, 0.0, 0.001, 0.2, 0.5, 1.0, 5.0, 8.0])),
            "remote": draw(st.sampled_from([0, 0, 0, 0, 0, 1, 2])),
            "con": draw(st.sampled_from([True, True, True, True, False])) if kind == "req" else True,
            "at": draw(st.sampled_from([0.5, 1.0])),
            "mr": draw(st.integers(0, 2)),
            "reaction": draw(st.sampled_from(["piggy", "piggy", "piggy", "ack_sep", "ack_sep", "rst", "rst", "silent", "silent", "piggy_wrongtoken"])),
            "d": draw(st.sampled_from([0.0, 0.01, 0.3, 0.6, 1.2])),
            "d2": draw(st.sampled_from([0.0, 0.5])),
        }
        if kind == "resp":
            sp["hdelay"] = draw(st.sampled_from([0.15, 0.3, 1.0]))
        subs.append(sp)
    errors = draw(st.lists(st.fixed_dictionaries({"t": st.sampled_from([0.0005, 0.1, 0.7, 2.0]), "remote": st.integers(0, 2)}), max_size=1))
    case = {"subs": subs, "errors": errors, "rng": draw(st.integers(0, 99))}
    if draw(st.integers(0, 2)) == 0:
        # the kernel refuses one or two of the datagrams A tries to send (a first transmission, a retransmission, an ACK ...)
        fates = [["deliver", 0.001]] * draw(st.integers(0, 12))
        fates.insert(draw(st.integers(0, len(fates))), ["senderr", draw(st.sampled_from([101, 13]))])
        if draw(st.integers(0, 3)) == 0:
            fates.insert(draw(st.integers(0, len(fates))), ["senderr", 101])
        case["fates"] = fates
    return case


def selftest():
    import aiocoap.messagemanager as mm

    orig = mm.MessageManager._continue_backlog

    def lifo(self, remote):
        if remote in self._backlogs and self._backlogs[remote]:
            self._backlogs[remote].reverse()
        return orig(self, remote)

    mm.MessageManager._continue_backlog = lifo
    try:
        base = {"kind": "req", "t": 0.0, "remote": 0, "con": True, "at": 0.5, "mr": 1, "reaction": "piggy", "d": 0.3, "d2": 0.0}
        out = run_case({"subs": [dict(base), dict(base), dict(base)], "errors": []})
    finally:
        mm.MessageManager._continue_backlog = orig
    assert out.violations, "oracle cannot fail"


RULE = (
    "2-8 submissions to 3 raw remotes (two share an IP): CON/NON requests of a real aiocoap context and, in the server role, separate CON responses produced by a slow "
    "handler; per exchange a generated outcome (piggybacked ACK / empty ACK + later response / RST after 0-1.2 s, or silence => time-out with ACK_TIMEOUT 0.5-1 s, "
    "ACK_RANDOM_FACTOR 1, MAX_RETRANSMIT 0-2) and optionally an ICMP-style error for a remote or one or two datagrams whose sendmsg() the kernel refuses (error reported synchronously from inside the send call). Oracle (queue model over wire timestamps on the virtual clock): open intervals "
    "[first transmission, ACK/RST arrival | give-up | error) of different CONs to one remote never overlap; first transmissions to one remote are in submission order; a held-back "
    "CON is first sent at exactly the instant the remote becomes free after an ACK/RST; NONs and other remotes are sent at submission time; every CON request is transmitted or "
    "fails with aiocoap.error.Error (only when something ahead of it failed or an error was reported); nothing hangs. Non-trivial = >= 2 CONs were held back behind one remote. Distinct = SHA-1 of the case."
)


def build(tier):
    return CheckSpec(
        [Sub("scenarios", run_case, strategy=_case, budget={"quick": 2500, "thorough": 250000}, max_wall={"quick": 55, "thorough": 3600})],
        RULE,
        assumptions=["OS boundary replaced by vlib.simnet", "give-up instants are computed from the tuning (ACK_RANDOM_FACTOR = 1 makes them exact)"],
        selftest=selftest,
    )
