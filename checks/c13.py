"""C13 -- file-backed OSCORE context: sender sequence numbers are never reused and replay state is never trusted
after an unclean stop, for every crash point between two file-system effects."""

import gc
import io as _io
import json
import os as _os
import shutil
import tempfile as _tempfile

from hypothesis import strategies as st

from vlib import oscoreenv as E
from vlib.runner import CheckSpec, Outcome, Sub, V, exc_key

ID = "C13"
LEVEL = "fault_enumeration"

SID, RID = b"\x0a", b"\x0b"
SECRET = b"c13-secret-0123456789"
MAX_SEQNO = 2**40 - 1


class SimulatedCrash(BaseException):
    pass


# --------------------------------------------------------------------------------------
# E6 for aiocoap.oscore: number every file-system effect, crash after effect k


class _Counter:
    def __init__(self, crash_after=None, torn=False):
        self.n = 0
        self.crash_after = crash_after
        self.torn = torn
        self.log = []
        self.last_tmp = None
        self.unsynced = None

    def effect(self, name, detail=""):
        self.n += 1
        self.log.append((self.n, name, detail))
        if self.crash_after is not None and self.n >= self.crash_after:
            if self.torn and self.unsynced and _os.path.exists(self.unsynced):
                # a write that was not fsynced yet may be lost in part
                with open(self.unsynced, "r+b") as f:
                    f.truncate(max(0, _os.path.getsize(self.unsynced) // 2))
            raise SimulatedCrash("after effect %d (%s)" % (self.n, name))


class _FileProxy:
    def __init__(self, f, counter, name):
        self._f = f
        self._c = counter
        self._name = name

    def write(self, data):
        r = self._f.write(data)
        self._f.flush()
        self._c.unsynced = self._name
        self._c.effect("write", len(data))
        return r

    def flush(self):
        self._f.flush()
        self._c.effect("flush")

    def fileno(self):
        return self._f.fileno()

    def __enter__(self):
        return self

    def __exit__(self, *exc):
        self._f.close()
        return False

    def __getattr__(self, n):
        return getattr(self._f, n)


class _ModProxy:
    def __init__(self, real, overrides):
        self._real = real
        self._over = overrides

    def __getattr__(self, n):
        if n in self._over:
            return self._over[n]
        return getattr(self._real, n)


class Interposer:
    def __init__(self, counter):
        self.c = counter

    def __enter__(self):
        oscore = E.setup()
        c = self.c
        fd_names = {}

        def mkstemp(*a, **kw):
            fd, name = _tempfile.mkstemp(*a, **kw)
            fd_names[fd] = name
            c.last_tmp = name
            c.effect("mkstemp", _os.path.basename(name)[:10])
            return fd, name

        def io_open(file, *a, **kw):
            f = _io.open(file, *a, **kw)
            if isinstance(file, int) and file in fd_names:
                return _FileProxy(f, c, fd_names[file])
            return f

        def fsync(fd):
            # durability is modelled by the interposer (unsynced flag), the real fsync would only cost time
            c.unsynced = None
            c.effect("fsync")

        def replace(src, dst):
            _os.replace(src, dst)
            if c.unsynced == src:
                c.unsynced = dst  # renamed before its data was made durable
            c.effect("replace", _os.path.basename(dst))

        def unlink(p):
            _os.unlink(p)
            c.effect("unlink", _os.path.basename(p))

        self.saved = (oscore.os, oscore.io, oscore.tempfile)
        oscore.os = _ModProxy(_os, {"fsync": fsync, "replace": replace, "unlink": unlink})
        oscore.io = _ModProxy(_io, {"open": io_open})
        oscore.tempfile = _ModProxy(_tempfile, {"mkstemp": mkstemp})
        return self

    def __exit__(self, *exc):
        oscore = E.setup()
        oscore.os, oscore.io, oscore.tempfile = self.saved
        return False


# --------------------------------------------------------------------------------------


def make_dir(window, start_seq=None):
    base = _tempfile.mkdtemp(prefix="vpc13-", dir="/dev/shm" if _os.path.isdir("/dev/shm") and _os.access("/dev/shm", _os.W_OK) else None)
    with open(_os.path.join(base, "settings.json"), "w") as f:
        json.dump({"sender-id_hex": SID.hex(), "recipient-id_hex": RID.hex(), "secret_ascii": SECRET.decode(), "window": window}, f)
    if start_seq is not None:
        with open(_os.path.join(base, "sequence.json"), "w") as f:
            json.dump({"next-to-send": start_seq, "received": {"index": 0, "bitfield": 0}}, f)
    return base


def piv_of(outer):
    opt = bytes(outer.opt.oscore)
    n = opt[0] & 7
    return int.from_bytes(opt[1 : 1 + n], "big")


def drop_like_a_dying_process(ctx):
    """no _destroy: the lock is released as the kernel would, nothing else is written"""
    try:
        if ctx.lockfile is not None:
            lf = ctx.lockfile
            ctx.lockfile = None
            lf.release()
    except Exception:
        pass


_registry = []
_tracked = {}


def tracked_class():
    oscore = E.setup()
    if "cls" not in _tracked:

        class Tracked(oscore.FilesystemSecurityContext):
            def __init__(self, *a, **kw):
                _registry.append(self)
                super().__init__(*a, **kw)

        _tracked["cls"] = Tracked
    return _tracked["cls"]


def release_all():
    while _registry:
        drop_like_a_dying_process(_registry.pop())


def run_history(h, crash_at=None, torn=False):
    """crash_at = (lifetime index, effect number) or None.  Returns (violations, effects per lifetime, info)"""
    import aiocoap
    from aiocoap import Message
    from aiocoap.message import Direction

    oscore = E.setup()
    vio = []
    base = make_dir(h["window"], h.get("start_seq"))
    peer = E.make_context("AES-CCM-16-64-128", RID, SID, None, b"", SECRET, seq=0)
    pivs_all = []  # (lifetime, piv) of every message actually produced
    accepted = []  # (lifetime, peer seq, bytes) of requests the file-backed context accepted
    effects = []
    crashed_lifetimes = set()
    crossed_chunk = False
    # every AEAD encryption of the whole history, by (key, nonce): the statement is about nonces, of which the sender
    # sequence number is only one source (a response may re-use the nonce of the request it answers, exactly once)
    sealed = {}
    alg = oscore.algorithms["AES-CCM-16-64-128"]
    orig_encrypt = alg.encrypt

    def recording_encrypt(plaintext, aad, key, iv):
        k = (bytes(key), bytes(iv))
        if k in sealed and sealed[k] != (bytes(plaintext), bytes(aad)):
            vio.append(V("C13/aead-nonce-reused-under-one-key", "nonce %s was used twice with one key for different messages (%d and %d bytes of plaintext)" % (bytes(iv).hex(), len(sealed[k][0]), len(plaintext))))
        sealed.setdefault(k, (bytes(plaintext), bytes(aad)))
        return orig_encrypt(plaintext, aad, key, iv)

    alg.encrypt = recording_encrypt
    try:
        lifetimes = list(h["lifetimes"]) + [{"ops": [["verify"]], "end": "clean"}]
        for li, lt in enumerate(lifetimes):
            counter = _Counter(crash_after=(crash_at[1] if crash_at and crash_at[0] == li else None), torn=torn)
            ctx = None
            crashed = False
            recovered = False  # a fresh Echo exchange happened in this lifetime
            prev_unclean = bool(crashed_lifetimes and (li - 1) in crashed_lifetimes)
            try:
                with Interposer(counter):
                    try:
                        ctx = tracked_class()(base, sequence_number_chunksize_start=h["chunk_start"], sequence_number_chunksize_limit=h["chunk_limit"])
                    except SimulatedCrash:
                        raise
                    except Exception as e:
                        vio.append(V("C13/reload-fails/" + exc_key(e), "lifetime %d: %r; dir %r" % (li, e, sorted(_os.listdir(base)))))
                        break
                    used_max = max([p for _, p in pivs_all], default=-1)
                    if ctx.sender_sequence_number <= used_max:
                        vio.append(V("C13/loaded-next-to-send-not-above-used-numbers", "lifetime %d loads next-to-send %d, but %d was already used" % (li, ctx.sender_sequence_number, used_max)))
                    last_piv = None
                    for op in lt["ops"]:
                        if op[0] == "protect":
                            for _ in range(op[1]):
                                m = aiocoap.Message(code=aiocoap.GET, payload=b"x")
                                try:
                                    outer, _rid = ctx.protect(m)
                                except oscore.ContextUnavailable:
                                    if ctx.sender_sequence_number < MAX_SEQNO:
                                        vio.append(V("C13/context-unavailable-too-early", str(ctx.sender_sequence_number)))
                                    break
                                p = piv_of(outer)
                                if p >= MAX_SEQNO:
                                    vio.append(V("C13/sequence-number-beyond-limit", str(p)))
                                if last_piv is not None and p <= last_piv:
                                    vio.append(V("C13/sequence-numbers-not-increasing", "%d after %d in lifetime %d" % (p, last_piv, li)))
                                if any(p == q for _, q in pivs_all):
                                    first = [l_ for l_, q in pivs_all if q == p][0]
                                    vio.append(V("C13/sender-sequence-number-reused", "partial IV %d issued in lifetime %d and again in lifetime %d (crash %r, lifetimes crashed so far %r)" % (p, first, li, crash_at, sorted(crashed_lifetimes))))
                                last_piv = p
                                pivs_all.append((li, p))
                                if ctx.sequence_number_chunksize > h["chunk_start"]:
                                    crossed_chunk = True
                        elif op[0] == "own":
                            # the context is a client of the same peer as well: a request of its own, answered by an
                            # ordinary response (which re-uses the request's nonce and carries no Partial IV)
                            m = aiocoap.Message(code=aiocoap.GET, payload=b"q")
                            try:
                                outer, rid_own = ctx.protect(m)
                            except oscore.ContextUnavailable:
                                continue
                            p = piv_of(outer)
                            if any(p == q for _, q in pivs_all):
                                first = [l_ for l_, q in pivs_all if q == p][0]
                                vio.append(V("C13/sender-sequence-number-reused", "partial IV %d issued in lifetime %d and again in lifetime %d (own request; crash %r)" % (p, first, li, crash_at)))
                            last_piv = p
                            pivs_all.append((li, p))
                            try:
                                w_own, _ = E.over_the_wire(outer, mid=55)
                                _inner, rid_peer = peer.unprotect(w_own)
                                resp_outer, _ = peer.protect(aiocoap.Message(code=aiocoap.CONTENT, payload=b"a"), rid_peer)
                                w_resp, _ = E.over_the_wire(resp_outer, mid=56)
                                ctx.unprotect(w_resp, rid_own)
                            except oscore.ProtectionInvalid as e_own:
                                vio.append(V("C13/own-exchange-fails", repr(e_own)))
                        elif op[0] in ("unprotect", "verify"):
                            if op[0] == "unprotect":
                                todo = []
                                for _ in range(op[1]):
                                    m = aiocoap.Message(code=aiocoap.GET, payload=b"r")
                                    outer, rid_p = peer.protect(m)
                                    _, data = E.over_the_wire(outer)
                                    todo.append((peer.sender_sequence_number - 1, data, rid_p, True))
                            else:
                                todo = [(n, d, None, False) for (_, n, d) in accepted]
                            for n, data, rid_p, is_new in todo:
                                wire = Message.decode(data)
                                wire.direction = Direction.INCOMING
                                try:
                                    inner, rid = ctx.unprotect(wire)
                                    outcome = "accepted"
                                except oscore.ReplayErrorWithEcho as e:
                                    outcome = "echo"
                                    exc = e
                                except oscore.ProtectionInvalid:
                                    outcome = "rejected"
                                if not is_new:
                                    if outcome == "echo":
                                        # a server sends the challenge, so it is built (and sealed) here as well
                                        try:
                                            exc.to_message()
                                        except oscore.ContextUnavailable:
                                            pass
                                    if outcome == "accepted":
                                        when = [l_ for l_, n_, _d in accepted if n_ == n][0]
                                        unclean_between = any(l_ in crashed_lifetimes for l_ in range(when, li))
                                        vio.append(V("C13/request-accepted-again-after-%s-stop" % ("unclean" if unclean_between else "clean"), "peer seq %d accepted in lifetime %d and again in lifetime %d (recovered by Echo in this lifetime: %s; crash %r)" % (n, when, li, recovered, crash_at)))
                                    continue
                                if outcome == "echo" and op[-1] == "recover":
                                    # the peer answers the 4.01 challenge with a fresh request carrying the Echo value
                                    try:
                                        resp = exc.to_message()
                                    except oscore.ContextUnavailable:
                                        continue  # the exhausted context cannot even issue the challenge
                                    wresp, _ = E.over_the_wire(resp, mid=77)
                                    innerr, _ = peer.unprotect(wresp, rid_p)
                                    m2 = aiocoap.Message(code=aiocoap.GET, payload=b"r2")
                                    m2.opt.echo = innerr.opt.echo
                                    outer2, _ = peer.protect(m2)
                                    _, data2 = E.over_the_wire(outer2)
                                    w2 = Message.decode(data2)
                                    w2.direction = Direction.INCOMING
                                    try:
                                        ctx.unprotect(w2)
                                        recovered = True
                                        accepted.append((li, peer.sender_sequence_number - 1, data2))
                                    except oscore.ProtectionInvalid as e2:
                                        vio.append(V("C13/echo-recovery-fails", repr(e2)))
                                elif outcome == "accepted":
                                    # the request is answered: the response re-uses the request's nonce under this context's key
                                    try:
                                        ctx.protect(aiocoap.Message(code=aiocoap.CONTENT, payload=b"answer-%d" % n), rid)
                                    except oscore.ContextUnavailable:
                                        pass
                                    # (a crash after the final store of a clean shutdown leaves exact state on disk, so accepting a *new*
                                    # request without Echo is not by itself a violation; what must never happen is accepting an old one again)
                                    accepted.append((li, n, data))
                    # end of lifetime
                    if lt["end"] == "clean":
                        c2 = ctx
                        ctx = None
                        c2._destroy()
                        del c2
                    else:
                        crashed = True
            except SimulatedCrash:
                crashed = True
            effects.append(counter.n)
            if crashed:
                crashed_lifetimes.add(li)
                release_all()  # also covers an object whose constructor was interrupted
                ctx = None
            else:
                del _registry[:]
        return vio, effects, {"crossed_chunk": crossed_chunk, "pivs": len(pivs_all), "accepted": len(accepted)}
    finally:
        try:
            del alg.encrypt
        except AttributeError:
            pass
        release_all()
        shutil.rmtree(base, ignore_errors=True)


def prev_unclean_replay_unknown(li, crashed_lifetimes, accepted):
    """did the directly preceding lifetime stop uncleanly after having accepted at least one request?"""
    if (li - 1) not in crashed_lifetimes:
        return False
    return any(l_ == li - 1 for l_, _n, _d in accepted)


def run_case(h):
    vio_all = {}
    # the uninterrupted run tells how many effects every lifetime has
    vio, effects, info = run_history(h, None)
    for v in vio:
        vio_all.setdefault(v.key, v)
    runs = 1
    crashes = 0
    for li, k_max in enumerate(effects[:-1]):
        for k in range(1, k_max + 1):
            for torn in ((False, True) if h.get("torn") else (False,)):
                v2, _, _ = run_history(h, (li, k), torn)
                runs += 1
                crashes += 1
                for v in v2:
                    vio_all.setdefault(v.key, v)
    labels = ["lifetimes=%d" % len(h["lifetimes"]), "chunk-crossed" if info["crossed_chunk"] else "chunk-not-crossed"]
    if h.get("start_seq"):
        labels.append("near-exhaustion")
    return Outcome(list(vio_all.values()), labels, info["crossed_chunk"] and crashes >= 1, {"evaluations": runs, "crash_runs": crashes, "effects": sum(effects)})


@st.composite
def _history(draw):
    nl = draw(st.integers(1, 3))
    lifetimes = []
    for _ in range(nl):
        ops = []
        for _ in range(draw(st.integers(1, 4))):
            kind = draw(st.sampled_from(["protect", "protect", "unprotect", "unprotect", "own"]))
            if kind == "protect":
                ops.append(["protect", draw(st.sampled_from([1, 2, 9, 10, 11, 29, 30, 31, 70]))])
            elif kind == "own":
                ops.append(["own"])
            else:
                ops.append(["unprotect", draw(st.integers(1, 3)), draw(st.sampled_from(["plain", "recover", "recover"]))])
        lifetimes.append({"ops": ops, "end": draw(st.sampled_from(["clean", "clean", "crash"]))})
    h = {"window": draw(st.sampled_from([1, 8, 32])), "chunk_start": draw(st.sampled_from([1, 2, 10])), "chunk_limit": draw(st.sampled_from([4, 10000])), "lifetimes": lifetimes, "torn": draw(st.booleans())}
    if draw(st.integers(0, 5)) == 0:
        h["start_seq"] = MAX_SEQNO - draw(st.integers(0, 12))
    return h


def selftest():
    assert E.vector_selftest() == (21, 0)
    oscore = E.setup()
    # persisting *after* use must be caught: make post_seqnoincrease store one chunk late
    orig = oscore.FilesystemSecurityContext.post_seqnoincrease

    def bad(self):
        # never persists ahead of use
        self.sequence_number_persisted = max(self.sequence_number_persisted, self.sender_sequence_number)

    oscore.FilesystemSecurityContext.post_seqnoincrease = bad
    try:
        out = run_case({"window": 32, "chunk_start": 2, "chunk_limit": 4, "lifetimes": [{"ops": [["protect", 9]], "end": "crash"}, {"ops": [["protect", 3]], "end": "clean"}], "torn": False})
    finally:
        oscore.FilesystemSecurityContext.post_seqnoincrease = orig
    assert out.violations, "oracle cannot fail"


RULE = (
    "History = 1-3 lifetimes of a FilesystemSecurityContext on a fresh directory (window 1/8/32, chunk start 1/2/10, chunk limit 4/10000, optionally sequence.json preset to within 12 of 2^40-1): each lifetime "
    "runs 1-4 operations (protect x {1,2,9,10,11,29,30,31,70}; unprotect 1-3 fresh requests of an in-memory peer, with or without answering an Echo challenge) and ends cleanly (_destroy) or by dropping the "
    "object like a dying process; a final verification lifetime re-delivers every request accepted so far. An interposer on aiocoap.oscore's os/io/tempfile numbers every file-system effect (mkstemp, write, flush, "
    "fsync, replace, unlink). The history is first run uninterrupted, then re-run once for EVERY (lifetime, effect k) with a simulated crash right after effect k (optionally truncating a not yet fsynced temp file), "
    "reloading and continuing. Oracle over all runs: no partial IV is ever issued twice from the directory, within a lifetime they strictly increase, at 2^40-1 protect raises ContextUnavailable, a reload never "
    "starts at or below a number already used and never fails, after an unclean stop no request accepted earlier is accepted again (whether or not an Echo exchange happens); "
    "after a clean stop earlier requests stay rejected. evaluations = runs (1 + number of crash points); non-trivial = history that crosses a persistence chunk boundary and has >= 1 crash run. Distinct = SHA-1 of the history."
)


def build(tier):
    E.setup()
    return CheckSpec(
        [Sub("histories", run_case, strategy=_history, budget={"quick": 120, "thorough": 9000}, max_wall={"quick": 60, "thorough": 3600}, workers={"quick": 12, "thorough": 16})],
        RULE,
        assumptions=[
            "crash = the process dies between two intercepted file-system effects of aiocoap.oscore; metadata reordering on power loss (rename durable before data) is not modelled",
            "crash points are enumerated exhaustively per history; histories are sampled",
            "CPython 3.11 + system cryptography + cbor2/filelock shims; scratch directories under the system temp dir are removed after every run",
        ],
        selftest=selftest,
    )
