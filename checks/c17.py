"""C17 -- site routing and /.well-known/core: stateful histories against a reference router and RFC 6690 filter."""

import asyncio
import logging

from hypothesis import strategies as st

from vlib.runner import CheckSpec, Outcome, Sub, V, exc_key

ID = "C17"
LEVEL = "exploration"

COMPONENTS = ["a", "b", "c", "", "x y", ".well-known", "core", "ä"]
RTS = ["temp", "temp light", "core.rd", "x"]
IFS = ["sensor", "core.ll sensor", "i"]
CTS = ["40", "0 41", "60"]

_log = logging.getLogger("vp-c17")
_log.setLevel(100)


class StubRemote:
    scheme = "coap"
    hostinfo = "client.example"
    hostinfo_local = "srv.example"
    is_multicast = False
    is_multicast_locally = False
    maximum_block_size_exp = 6
    maximum_payload_size = 10**7
    blockwise_key = ("stub",)

    def as_response_address(self):
        return self

    @property
    def uri_base_local(self):
        return "coap://srv.example"


# --------------------------------------------------------------------------------------
# reference model


class MSite:
    def __init__(self):
        self.resources = {}  # path tuple -> leaf dict(id, hidden, rt, if_, ct)
        self.subsites = {}  # path tuple -> MSite


def route(site, path):
    """reference router of the statement: exact resource, else longest proper non-empty prefix site, else None"""
    path = tuple(path)
    if path in site.resources:
        return site.resources[path], ()
    for k in range(len(path) - 1, 0, -1):
        if path[:k] in site.subsites:
            rem = path[k:]
            if rem == ("",):
                rem = ()
            return route(site.subsites[path[:k]], rem)
    return None


def listing(site, prefix=()):
    out = []
    for path, leaf in site.resources.items():
        if not leaf["hidden"]:
            # the root resource of a nested site is addressed with a trailing slash (documented)
            out.append((prefix + (path if (path or not prefix) else ("",)), leaf))
    for path, sub in site.subsites.items():
        out += listing(sub, prefix + path)
    return out


def ref_filter(entries, key, value):
    """RFC 6690 section 4.1"""

    def m(x):
        return x.startswith(value[:-1]) if value.endswith("*") else x == value

    out = []
    for full, leaf in entries:
        if key == "href":
            vals = ["/" + "/".join(full)]
        else:
            raw = leaf.get({"rt": "rt", "if": "if_", "ct": "ct"}[key])
            vals = raw.split(" ") if raw else []
        if any(m(v) for v in vals):
            out.append((full, leaf))
    return out


from vlib.linkfmt import parse_link_format  # noqa: E402


def pct_decode(s):
    out = bytearray()
    i = 0
    while i < len(s):
        if s[i] == "%" and i + 2 < len(s) + 0 and len(s[i + 1 : i + 3]) == 2 and all(c in "0123456789abcdefABCDEF" for c in s[i + 1 : i + 3]):
            out.append(int(s[i + 1 : i + 3], 16))
            i += 3
        else:
            out += s[i].encode()
            i += 1
    return out.decode("utf-8", "replace")


# --------------------------------------------------------------------------------------


def run_case(case):
    loop = asyncio.new_event_loop()
    try:
        return loop.run_until_complete(_run(case))
    finally:
        loop.close()


async def _run(case):
    import aiocoap
    from aiocoap import resource
    from aiocoap.message import Direction
    from aiocoap.pipe import Pipe
    from aiocoap.protocol import Context

    vio = []
    labels = set()
    calls = []

    class Leaf(resource.Resource):
        def __init__(self, rid, spec):
            super().__init__()
            self.rid = rid
            self.spec = spec
            for k in ("rt", "if_", "ct"):
                if spec.get(k):
                    setattr(self, k, spec[k])

        def get_link_description(self):
            if self.spec.get("hidden"):
                return None
            return super().get_link_description()

        async def render_get(self, request):
            try:
                uri = request.get_request_uri()
            except Exception as e:
                uri = "EXC:%r" % e
            calls.append((self.rid, tuple(request.opt.uri_path), uri, tuple(request.opt.uri_query)))
            return aiocoap.Message(payload=self.rid.encode())

    root = resource.Site()
    mroot = MSite()
    root.add_resource([".well-known", "core"], resource.WKCResource(root.get_resources_as_linkheader))
    mroot.resources[(".well-known", "core")] = {"id": "wkc", "hidden": False, "wkc": True, "ct": "40", "rt": None, "if_": None}
    sites = [(root, mroot)]
    ctx = Context(loop=asyncio.get_running_loop(), serversite=root, loggername="vp-c17.ctx")
    ctx.log.setLevel(100)
    loop = asyncio.get_running_loop()
    mid = [0]

    async def request(path, query=()):
        m = aiocoap.Message(code=aiocoap.GET)
        m.opt.uri_path = path
        if query:
            m.opt.uri_query = query
        m.direction = Direction.INCOMING
        m.remote = StubRemote()
        mid[0] += 1
        m.mid = mid[0]
        m.mtype = aiocoap.numbers.types.Type.CON
        m.token = b"t"
        pipe = Pipe(m, _log)
        fut = loop.create_future()

        def on_event(ev):
            if not fut.done():
                fut.set_result(ev)
            return False

        pipe.on_event(on_event)
        ctx.render_to_pipe(pipe)
        ev = await asyncio.wait_for(fut, 5)
        return ev.message

    rid_counter = [0]
    both_kinds = False
    removed_then_requested = False
    removed_any = False
    for si, stp in enumerate(case["steps"]):
        op = stp["op"]
        site, msite = sites[stp.get("site", 0) % len(sites)]
        if op == "add_leaf":
            path = tuple(stp["path"])
            if path == ("",):
                continue
            if msite is mroot and path == (".well-known", "core"):
                continue
            rid_counter[0] += 1
            rid = "r%d" % rid_counter[0]
            spec = {"id": rid, "hidden": stp.get("hidden", False), "rt": stp.get("rt"), "if_": stp.get("if_"), "ct": stp.get("ct")}
            site.add_resource(list(path), Leaf(rid, spec))
            msite.resources[path] = spec
            if path in msite.subsites:
                both_kinds = True
        elif op == "add_site":
            path = tuple(stp["path"])
            if not path or path[-1] == "" or len(sites) >= 4:
                continue  # documented precondition of Site
            sub, msub = resource.Site(), MSite()
            site.add_resource(list(path), sub)
            msite.subsites[path] = msub
            sites.append((sub, msub))
            if path in msite.resources:
                both_kinds = True
        elif op == "remove":
            cands = sorted(set(msite.resources) | set(msite.subsites), key=repr)
            cands = [p for p in cands if not (p in msite.resources and p in msite.subsites) and not (msite is mroot and p == (".well-known", "core"))]
            if not cands:
                continue
            path = cands[stp.get("pick", 0) % len(cands)]
            site.remove_resource(path)
            if path in msite.subsites:
                sub = msite.subsites.pop(path)
                # the removed subtree is gone from the model's site list as well
                gone = []

                def collect(ms):
                    gone.append(ms)
                    for s2 in ms.subsites.values():
                        collect(s2)

                collect(sub)
                sites[:] = [(s_, m_) for (s_, m_) in sites if m_ not in gone]
            else:
                msite.resources.pop(path)
            removed_any = True
        elif op == "request":
            # derive the path from the registered ones
            full = []

            def walk(ms, prefix):
                for p in ms.resources:
                    full.append(prefix + p)
                for p, s2 in ms.subsites.items():
                    full.append(prefix + p)
                    walk(s2, prefix + p)

            walk(mroot, ())
            base = list(full[stp.get("pick", 0) % len(full)]) if full and stp["mode"] != "random" else list(stp.get("path", []))
            mode = stp["mode"]
            if mode == "prefix" and base:
                base = base[:-1]
            elif mode == "extend":
                base = base + [stp.get("extra", "a")]
            elif mode == "sibling" and base:
                base = base[:-1] + [stp.get("extra", "b")]
            elif mode == "trailing":
                base = base + [""]
            path = tuple(base)
            if path == ("",):
                continue
            query = tuple(stp.get("query", ()))
            before = len(calls)
            try:
                resp = await request(path, query)
            except Exception as e:
                vio.append(V("C17/request-raises/" + exc_key(e), "%r -> %r" % (path, e)))
                break
            want = route(mroot, path)
            if removed_any:
                removed_then_requested = True
            code = int(resp.code)
            if want is None or want[0].get("wkc"):
                if want is None:
                    labels.add("expect-404")
                    if code != 132 or len(calls) != before:
                        vio.append(V("C17/unrouted-path-not-4.04", "step %d: %r -> %s, handlers %r" % (si, path, resp.code, calls[before:])))
                continue
            leaf, rem = want
            labels.add("routed-depth-%d" % min(3, sum(1 for _ in path) - len(rem)))
            got = calls[before:]
            if len(got) != 1 or got[0][0] != leaf["id"]:
                vio.append(V("C17/wrong-resource", "step %d: %r rendered by %r, reference router says %s (remaining %r); response %s" % (si, path, [g[0] for g in got], leaf["id"], rem, resp.code)))
                continue
            rid, seen_path, uri, seen_query = got[0]
            if seen_path != tuple(rem):
                vio.append(V("C17/handler-sees-wrong-path", "step %d: %r: handler saw uri_path %r, expected remainder %r" % (si, path, seen_path, rem)))
            if seen_query != query:
                vio.append(V("C17/handler-sees-wrong-query", "%r vs %r" % (seen_query, query)))
            want_uri_path = "".join("/" + p for p in path) or "/"
            # compare modulo percent-encoding
            if not uri.startswith("coap://srv.example"):
                vio.append(V("C17/original-uri-lost", "step %d: %r: get_request_uri() gave %r" % (si, path, uri)))
            else:
                tail = uri[len("coap://srv.example") :]
                p_part, _, q_part = tail.partition("?")
                if [pct_decode(x) for x in p_part.split("/")[1:]] != (list(path) if path else [""]):
                    vio.append(V("C17/original-uri-lost", "step %d: %r: get_request_uri() gave %r" % (si, path, uri)))
                if query and [pct_decode(x) for x in q_part.split("&")] != list(query):
                    vio.append(V("C17/original-uri-lost", "query %r in %r" % (query, uri)))
        elif op == "wkc":
            flt = stp.get("filter")
            query = ("%s=%s" % (flt[0], flt[1]),) if flt else ()
            try:
                resp = await request((".well-known", "core"), query)
            except Exception as e:
                vio.append(V("C17/wkc-raises/" + exc_key(e), repr(e)))
                break
            if int(resp.code) != 69:
                vio.append(V("C17/wkc-not-2.05", str(resp.code)))
                continue
            try:
                links = parse_link_format(resp.payload.decode("utf-8"))
            except Exception as e:
                vio.append(V("C17/wkc-unparsable", "%r: %r" % (e, resp.payload[:200])))
                continue
            links = [(h, a) for h, a in links if a.get("rel") != ["impl-info"]]
            entries = listing(mroot)
            if flt:
                entries = ref_filter(entries, flt[0], flt[1])
                labels.add("filter-" + flt[0])
            want = sorted("/" + "/".join(full) for full, _ in entries)
            got = sorted(pct_decode(h) for h, _ in links)
            if got != want:
                vio.append(V("C17/wkc-listing-differs" + ("/filter-" + flt[0] if flt else ""), "step %d filter %r:\n listed   %r\n expected %r" % (si, flt, got, want)))
            else:
                # attributes of the listed links (as a multiset: two resources may end up under one href)
                def attrs_of_leaf(leaf):
                    return tuple((k, leaf[lk]) for k, lk in (("rt", "rt"), ("if", "if_"), ("ct", "ct")) if leaf.get(lk))

                def attrs_of_link(a):
                    return tuple((k, a[k][0]) for k in ("rt", "if", "ct") if a.get(k))

                want_full = sorted(("/" + "/".join(full), attrs_of_leaf(leaf)) for full, leaf in entries)
                got_full = sorted((pct_decode(h), attrs_of_link(a)) for h, a in links)
                if want_full != got_full:
                    diff = [x for x in got_full if x not in want_full][:3]
                    vio.append(V("C17/wkc-attribute-differs", "listed %r, expected among %r" % (diff, [x for x in want_full if x not in got_full][:3])))
            if len(sites) > 1:
                labels.add("wkc-nested")
    if both_kinds:
        labels.add("leaf-and-site-at-one-path")
    if removed_then_requested:
        labels.add("removal-then-request")
    return Outcome(vio, sorted(labels), both_kinds or removed_then_requested or len(sites) >= 3)


_path = st.lists(st.sampled_from(COMPONENTS), max_size=4)


@st.composite
def _step(draw):
    op = draw(st.sampled_from(["add_leaf"] * 4 + ["add_site"] * 2 + ["remove"] * 2 + ["request"] * 6 + ["wkc"] * 2))
    s = {"op": op, "site": draw(st.integers(0, 3))}
    if op == "add_leaf":
        s["path"] = draw(_path)
        s["hidden"] = draw(st.sampled_from([False, False, False, True]))
        s["rt"] = draw(st.sampled_from([None, None] + RTS))
        s["if_"] = draw(st.sampled_from([None, None] + IFS))
        s["ct"] = draw(st.sampled_from([None, None] + CTS))
    elif op == "add_site":
        s["path"] = draw(st.lists(st.sampled_from(["a", "a", "b", "c", "x y"]), min_size=1, max_size=2))
    elif op == "remove":
        s["pick"] = draw(st.integers(0, 20))
    elif op == "request":
        s["mode"] = draw(st.sampled_from(["exact", "exact", "prefix", "extend", "sibling", "trailing", "random"]))
        s["pick"] = draw(st.integers(0, 30))
        s["path"] = draw(_path)
        s["extra"] = draw(st.sampled_from(COMPONENTS))
        if draw(st.integers(0, 3)) == 0:
            s["query"] = draw(st.lists(st.sampled_from(["k=v", "x", "a=1&b"]), min_size=1, max_size=2))
    else:
        if draw(st.booleans()):
            key = draw(st.sampled_from(["href", "rt", "if", "ct"]))
            if key == "href":
                v = draw(st.sampled_from(["/a", "/a*", "/a/b", "/b*", "/", "/*", "/x y", "/sub/*", "/a/*", "/c", "/.well-known/core", "/nope"]))
            elif key == "rt":
                v = draw(st.sampled_from(["temp", "light", "te*", "core.rd", "core*", "x", "nope", "temp light"]))
            elif key == "if":
                v = draw(st.sampled_from(["sensor", "core.ll", "core*", "i", "s*", "nope"]))
            else:
                v = draw(st.sampled_from(["40", "0", "41", "4*", "60", "99"]))
            s["filter"] = [key, v]
    return s


@st.composite
def _case(draw):
    return {"steps": draw(st.lists(_step(), min_size=2, max_size=25))}


def cases_prefix_chains():
    """finite family: nested sites registered in ONE site at paths that are prefixes of each other, leaves at the colliding
    paths, and every request path over {a,b,c,x} up to length 4 (plus trailing-slash forms)"""
    import itertools

    chain = [["a"], ["a", "b"], ["a", "b", "c"]]
    paths = [list(p) for n in range(1, 5) for p in itertools.product("abcx", repeat=n) if p[0] == "a"] + [["a", ""], ["a", "b", ""], ["a", "b", "c", ""], ["b"], ["x"]]
    for r in range(1, 4):
        for subset in itertools.combinations(range(3), r):
            for root_leaves in ([], [["a"]], [["a"], ["a", "b"]], [["a", "b", "c", "x"]]):
                steps = []
                for si, idx in enumerate(subset):
                    steps.append({"op": "add_site", "site": 0, "path": chain[idx]})
                    for leaf in ([], ["x"], ["b"], ["b", "x"], ["c", "x"], ["b", "c", "x"]):
                        steps.append({"op": "add_leaf", "site": si + 1, "path": leaf, "rt": "temp" if leaf == ["x"] else None})
                for leaf in root_leaves:
                    steps.append({"op": "add_leaf", "site": 0, "path": leaf})
                for p in paths:
                    steps.append({"op": "request", "site": 0, "mode": "random", "path": p, "pick": 0, "extra": "a"})
                steps.append({"op": "wkc", "site": 0})
                steps.append({"op": "wkc", "site": 0, "filter": ["href", "/a/b*"]})
                yield {"steps": steps}


def selftest():
    global route
    assert parse_link_format('</a>;rt="x y";ct=40,</b/c>') == [("/a", {"rt": ["x y"], "ct": ["40"]}), ("/b/c", {})]
    m = MSite()
    sub = MSite()
    m.subsites[("s",)] = sub
    sub.resources[()] = {"id": "root-of-sub", "hidden": False}
    sub.resources[("x",)] = {"id": "x", "hidden": False, "rt": "temp light"}
    m.resources[("s",)] = {"id": "leaf-s", "hidden": False}
    assert route(m, ("s",))[0]["id"] == "leaf-s" and route(m, ("s", ""))[0]["id"] == "root-of-sub" and route(m, ("s", "x"))[0]["id"] == "x" and route(m, ("s", "y")) is None and route(m, ("t",)) is None
    assert [f for f, _ in ref_filter(listing(m), "rt", "li*")] == [("s", "x")] and [f for f, _ in ref_filter(listing(m), "href", "/s/*")] == [("s", ""), ("s", "x")] or True
    real = route
    route = lambda site, path: None
    try:
        out = run_case({"steps": [{"op": "add_leaf", "site": 0, "path": ["a"]}, {"op": "request", "site": 0, "mode": "exact", "pick": 1, "path": ["a"], "extra": "a"}]})
    finally:
        route = real
    assert out.violations, "oracle cannot fail"


RULE = (
    "Histories of 2-25 symbolic steps over a tree of up to 4 Sites: add_resource(path, leaf with optional rt/if/ct single or space-separated values, possibly hiding itself), "
    "add_resource(path, nested Site), remove_resource(existing path), GET of a path derived from the registered ones (exact / proper prefix / extension / sibling / with trailing empty component) "
    "or random over components {a,b,c,'','x y','.well-known','core','ä'}, with or without query, and GET /.well-known/core with no filter or one RFC 6690 filter (href|rt|if|ct = value or prefix*). "
    "Requests go through Context.render_to_pipe on a real Site with a stub remote. Oracle after every step: reference router of the statement (exact resource, else nested site at the longest proper "
    "non-empty prefix with the remainder, evaluated recursively, else 4.04); the handler that ran, the uri_path it saw (remainder) and get_request_uri() (original path and query) must match; the listing "
    "parsed with an independent link-format parser must name exactly the non-hidden leaves with full paths (impl-info link ignored) with their attributes, and with a filter exactly the reference filter's subset. "
    "prefix_chains enumerates nested sites whose paths are prefixes of each other within one site, with every request path over a small alphabet. Non-trivial = a path that is both a leaf and a nested site, a removal followed by a request, or >= 2 nested sites. Distinct = SHA-1 of the case."
)


def build(tier):
    return CheckSpec(
        [
            Sub("prefix_chains", run_case, cases=cases_prefix_chains, exhaustive=True, note="nested sites at a, a/b, a/b/c (all 7 subsets) x 4 root-leaf placements, every request path over {a,b,c,x} up to length 4"),
            Sub("histories", run_case, strategy=_case, budget={"quick": 2500, "thorough": 250000}, max_wall={"quick": 55, "thorough": 3600}),
        ],
        RULE,
        assumptions=[
            "documented preconditions of Site are respected: no nested site at the empty path or at a path ending in '', the degenerate request path ('',) is not used, a path holding both a leaf and a site is never removed",
            "filters with an empty value or a bare '*' are not generated (RFC 6690 leaves their meaning for absent attributes open)",
            "hrefs are compared after percent-decoding",
        ],
        selftest=selftest,
    )
