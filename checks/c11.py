"""C11 -- OSCORE protection: round trip, hiding, request/response binding, tampering and cross-context rejection."""

from hypothesis import strategies as st

from vlib import oscoreenv as E
from vlib import refcodec as R
from vlib.runner import CheckSpec, Outcome, Sub, V, exc_key

ID = "C11"
LEVEL = "exploration"

OUTER_ALLOWED = {9, 3, 7, 35, 39, 6}
ALGS = ["AES-CCM-16-64-128", "AES-CCM-16-64-256", "AES-CCM-64-64-128", "AES-CCM-16-128-128", "AES-CCM-64-128-256", "A128GCM", "A256GCM", "ChaCha20/Poly1305"]
IV_BYTES = {"AES-CCM-16-64-128": 13, "AES-CCM-16-64-256": 13, "AES-CCM-64-64-128": 7, "AES-CCM-16-128-128": 13, "AES-CCM-64-128-256": 7, "A128GCM": 12, "A256GCM": 12, "ChaCha20/Poly1305": 12}
SEQS = [0, 1, 255, 256, 65535, 65536, 2**24, 2**32 - 1, 2**32, 2**40 - 3]

# end-to-end (Class E) options the generator attaches to inner messages: number -> value strategy
_INNER_OPTS = [
    (11, st.text(alphabet="abcdefgh", min_size=4, max_size=10).map(lambda s: ("str", "p-" + s))),
    (15, st.text(alphabet="klmnopqr", min_size=4, max_size=10).map(lambda s: ("str", "q-" + s))),
    (8, st.text(alphabet="stuvw", min_size=4, max_size=8).map(lambda s: ("str", "l-" + s))),
    (20, st.text(alphabet="xyz0123", min_size=4, max_size=8).map(lambda s: ("str", "lq-" + s))),
    (12, st.sampled_from([0, 40, 60, 10000]).map(lambda v: ("uint", v))),
    (17, st.sampled_from([0, 40, 60]).map(lambda v: ("uint", v))),
    (4, st.binary(min_size=1, max_size=8).map(lambda v: ("opaque", v))),
    (1, st.binary(min_size=0, max_size=8).map(lambda v: ("opaque", v))),
    (14, st.integers(0, 2**32 - 1).map(lambda v: ("uint", v))),
    (60, st.integers(0, 100000).map(lambda v: ("uint", v))),
    (28, st.integers(0, 100000).map(lambda v: ("uint", v))),
    (27, st.tuples(st.integers(0, 50), st.booleans(), st.integers(0, 6)).map(lambda v: ("block", list(v)))),
    (23, st.tuples(st.integers(0, 50), st.booleans(), st.integers(0, 6)).map(lambda v: ("block", list(v)))),
    (252, st.binary(min_size=1, max_size=12).map(lambda v: ("opaque", v))),
    (292, st.binary(min_size=0, max_size=8).map(lambda v: ("opaque", v))),
    (5, st.just(("opaque", b""))),
    (2048, st.binary(max_size=5).map(lambda v: ("opaque", v))),
    (65000, st.binary(max_size=5).map(lambda v: ("opaque", v))),
]


@st.composite
def _inner_options(draw):
    n = draw(st.integers(0, 7))
    out = []
    for _ in range(n):
        num, strat = draw(st.sampled_from(_INNER_OPTS))
        out.append([num, list(draw(strat))])
    return out


@st.composite
def _contexts(draw):
    alg = draw(st.sampled_from(ALGS))
    maxid = IV_BYTES[alg] - 6
    sid = draw(st.binary(min_size=0, max_size=maxid))
    rid = draw(st.binary(min_size=0, max_size=maxid).filter(lambda x: x != sid))
    return {
        "alg": alg,
        "sid": sid,
        "rid": rid,
        "idctx": draw(st.one_of(st.none(), st.none(), st.binary(min_size=0, max_size=16))),
        "salt": draw(st.one_of(st.just(b""), st.binary(min_size=1, max_size=16))),
        "secret": draw(st.binary(min_size=1, max_size=32)),
        "cseq": draw(st.one_of(st.sampled_from(SEQS), st.integers(0, 2**40 - 3))),
        "sseq": draw(st.one_of(st.sampled_from(SEQS), st.integers(0, 2**40 - 3))),
    }


@st.composite
def _case(draw):
    payload_len = draw(st.sampled_from([0, 0, 1, 20, 100, 1000, 2000]))
    return {
        "ctx": draw(_contexts()),
        "req_code": draw(st.sampled_from([1, 2, 3, 4, 5, 6, 7])),
        "req_opts": draw(_inner_options()),
        "req_payload": payload_len,
        "observe": draw(st.sampled_from([None, None, None, 0])),
        "uri_host": draw(st.sampled_from([None, None, "example.com"])),
        "resp_code": draw(st.sampled_from([65, 66, 68, 69, 128, 132, 160])),
        "resp_opts": draw(_inner_options()),
        "resp_payload": draw(st.sampled_from([0, 1, 50, 1500])),
        "resp_own_piv": draw(st.booleans()),
        "tamper": draw(st.lists(st.tuples(st.sampled_from(["ct-bit", "opt-bit", "opt-trunc", "opt-piv", "opt-piv-pad", "opt-kid", "opt-idctx", "opt-insert-idctx", "opt-other", "opt-extend", "ctx-secret", "ctx-salt", "ctx-sid", "ctx-rid", "ctx-idctx", "ctx-alg"]), st.integers(0, 10**6)).map(list), min_size=2, max_size=8)),
        "second": draw(st.booleans()),
        "reverse": draw(st.booleans()),
    }


def marker(tag, n):
    base = ("MARK-%s-7f3a9c51e2-" % tag).encode()
    return (base * (n // len(base) + 1))[:n] if n >= 16 else base[:n]


def build_inner(code, opts, payload, observe=None, uri_host=None):
    import aiocoap
    from aiocoap.numbers.optionnumbers import OptionNumber

    m = aiocoap.Message(code=aiocoap.numbers.codes.Code(code), payload=payload)
    for num, (kind, v) in opts:
        if kind == "block":
            v = tuple(v)
        m.opt.add_option(OptionNumber(num).create_option(value=v))
    if observe is not None:
        m.opt.observe = observe
    if uri_host is not None:
        m.opt.uri_host = uri_host
    return m


def opt_view(m, skip=()):
    out = []
    for o in m.opt.option_list():
        if int(o.number) in skip:
            continue
        v = o.value
        if isinstance(v, tuple):
            v = [int(v[0]), bool(v[1]), int(v[2])]
        elif isinstance(v, int) and not isinstance(v, bool):
            v = int(v)
        out.append((int(o.number), v))
    return out


def want_view(opts):
    return [(n, v) for n, (k, v) in sorted(opts, key=lambda o: o[0])]


def attempt_unprotect(ctx, wire_msg, request_id=None, is_request=True, direct_fallback=False):
    """the call sequence real callers use; -> ("message", m, rid) | ("rejected", exc) | ("no-context",) | ("other", exc)"""
    oscore = E.setup()
    try:
        _, _, unprotected, _ = ctx._extract_encrypted0(wire_msg)
        if is_request:
            target = ctx.get_oscore_context_for(unprotected)
            if target is None:
                # no context claims the message.  The statement is about unprotection itself, so the message is also
                # handed straight to the context: it must refuse it on its own (key ID / ID context of the option
                # enter neither nonce nor AAD of a request; the comparison in unprotect() is all that detects them)
                # (only when the option still names a key ID: a request without one is never dispatched to a context,
                # and for a recipient whose ID is empty "no key ID" and "empty key ID" say the same thing)
                if not direct_fallback or oscore.COSE_KID not in unprotected:
                    return ("no-context",)
                try:
                    m, rid = ctx.unprotect(wire_msg, request_id)
                    return ("message", m, rid)
                except (oscore.ProtectionInvalid, oscore.NotAProtectedMessage):
                    return ("no-context",)
        else:
            target = ctx.context_from_response(unprotected)
        m, rid = target.unprotect(wire_msg, request_id)
        return ("message", m, rid)
    except oscore.ProtectionInvalid as e:
        return ("rejected", e)
    except oscore.NotAProtectedMessage as e:
        return ("rejected", e)
    except Exception as e:
        return ("other", e)


def option_semantics(raw):
    """independent reading of the OSCORE option value (RFC 8613 6.1): (piv, kid, idctx, other flag bits) or None if malformed"""
    if raw == b"":
        return (None, None, None, 0)
    first = raw[0]
    n = first & 7
    tail = raw[1:]
    if n in (6, 7) or len(tail) < n:
        return None
    piv = tail[:n] if n else None
    tail = tail[n:]
    idctx = None
    if first & 0x10:
        if not tail or len(tail) - 1 < tail[0]:
            return None
        idctx = tail[1 : 1 + tail[0]]
        tail = tail[1 + tail[0] :]
    kid = None
    if first & 0x08:
        kid = tail
        tail = b""
    if tail:
        return None
    return (piv, kid, idctx, first & 0xE0)


def same_meaning(orig, new, which, sender_id, idctx):
    """is the tampered option the same statement as the original one?  For responses neither the encoding of the partial IV
    nor an explicit KID / KID context equal to the implied one is authenticated (or changed)."""
    a, b = option_semantics(orig), option_semantics(new)
    if a is None or b is None:
        return False
    if a == b:
        return True
    if which == "request":
        return False
    pa, pb = a[0], b[0]
    if (pa is None) != (pb is None) or (pa is not None and int.from_bytes(pa, "big") != int.from_bytes(pb, "big")):
        return False
    if (a[1] if a[1] is not None else sender_id) != (b[1] if b[1] is not None else sender_id):
        return False
    if (a[2] if a[2] is not None else idctx) != (b[2] if b[2] is not None else idctx):
        return False
    return a[3] == b[3]


def clone_wire(data):
    from aiocoap import Message
    from aiocoap.message import Direction

    m = Message.decode(data)
    m.direction = Direction.INCOMING
    return m


def run_case(c):
    import aiocoap

    oscore = E.setup()
    vio = []
    labels = set()
    x = c["ctx"]

    def pair(**over):
        p = dict(x, **over)
        client = E.make_context(p["alg"], p["sid"], p["rid"], p["idctx"], p["salt"], p["secret"], seq=p["cseq"])
        server = E.make_context(p["alg"], p["rid"], p["sid"], p["idctx"], p["salt"], p["secret"], seq=p["sseq"])
        return client, server

    client, server = pair()
    req_payload = marker("REQ", c["req_payload"])
    inner_req = build_inner(c["req_code"], c["req_opts"], req_payload, c["observe"], c["uri_host"])
    try:
        outer_req, req_id_c = client.protect(inner_req)
        wire_req, req_bytes = E.over_the_wire(outer_req)
    except Exception as e:
        return Outcome([V("C11/protect-raises/" + exc_key(e), repr(e))], ["protect-raises"], True)
    # ---- O2 hiding (request)
    outer_fields = R.decode(req_bytes)
    if outer_fields["code"] not in (2, 5):
        vio.append(V("C11/outer-request-code", R.code_str(outer_fields["code"])))
    leaked = [n for n, _ in outer_fields["options"] if n not in OUTER_ALLOWED]
    if leaked:
        vio.append(V("C11/inner-option-in-outer-message/%d" % leaked[0], "outer options %r" % [n for n, _ in outer_fields["options"]]))
    if c["req_payload"] >= 16 and req_payload[:16] in req_bytes:
        vio.append(V("C11/payload-visible-in-outer-message", "request"))
    for num, (kind, v) in c["req_opts"]:
        if kind == "str" and len(v) >= 4 and v.encode() in req_bytes:
            vio.append(V("C11/option-value-visible-in-outer-message/%d" % num, v))
    # ---- O1 round trip (request)
    res = attempt_unprotect(server, wire_req)
    if res[0] != "message":
        vio.append(V("C11/authentic-request-not-accepted/" + res[0], repr(res[1:])))
        return Outcome(vio, ["req-rejected"], True)
    got_req, req_id_s = res[1], res[2]
    skip = (6,) if c["observe"] is None else ()
    if int(got_req.code) != c["req_code"] or bytes(got_req.payload) != req_payload or opt_view(got_req, skip=(3, 6)) != want_view(c["req_opts"]):
        vio.append(V("C11/request-roundtrip-differs", "code %s payload %d options %r vs %r" % (got_req.code, len(got_req.payload), opt_view(got_req, skip=(3, 6))[:6], want_view(c["req_opts"])[:6])))
    if c["observe"] == 0 and got_req.opt.observe != 0:
        vio.append(V("C11/observe-lost", repr(got_req.opt.observe)))
    # ---- response
    resp_payload = marker("RSP", c["resp_payload"])
    inner_resp = build_inner(c["resp_code"], c["resp_opts"], resp_payload)
    if c["resp_own_piv"]:
        req_id_s.can_reuse_nonce = False
    try:
        outer_resp, _ = server.protect(inner_resp, req_id_s)
        wire_resp, resp_bytes = E.over_the_wire(outer_resp, mid=0x2222)
    except Exception as e:
        return Outcome(vio + [V("C11/protect-response-raises/" + exc_key(e), repr(e))], ["protect-raises"], True)
    of = R.decode(resp_bytes)
    if of["code"] not in (68, 69):
        vio.append(V("C11/outer-response-code", R.code_str(of["code"])))
    leaked = [n for n, _ in of["options"] if n not in OUTER_ALLOWED]
    if leaked:
        vio.append(V("C11/inner-option-in-outer-message/%d" % leaked[0], "response"))
    if c["resp_payload"] >= 16 and resp_payload[:16] in resp_bytes:
        vio.append(V("C11/payload-visible-in-outer-message", "response"))
    for num, (kind, v) in c["resp_opts"]:
        if kind == "str" and len(v) >= 4 and v.encode() in resp_bytes:
            vio.append(V("C11/option-value-visible-in-outer-message/%d" % num, v))
    res = attempt_unprotect(client, clone_wire(resp_bytes), req_id_c, is_request=False)
    if res[0] != "message":
        vio.append(V("C11/authentic-response-not-accepted/" + res[0], repr(res[1:])))
    else:
        got = res[1]
        if int(got.code) != c["resp_code"] or bytes(got.payload) != resp_payload or opt_view(got, skip=(6,)) != want_view(c["resp_opts"]):
            vio.append(V("C11/response-roundtrip-differs", "code %s payload %d options %r vs %r" % (got.code, len(got.payload), opt_view(got, skip=(6,))[:6], want_view(c["resp_opts"])[:6])))
    # ---- O3 binding: the response against another request's identifiers
    if c["second"]:
        inner_req2 = build_inner(c["req_code"], c["req_opts"], req_payload, c["observe"], c["uri_host"])
        outer_req2, req_id_c2 = client.protect(inner_req2)
        res = attempt_unprotect(client, clone_wire(resp_bytes), req_id_c2, is_request=False)
        labels.add("binding")
        if res[0] == "message":
            vio.append(V("C11/response-accepted-for-another-request" + ("/own-piv" if c["resp_own_piv"] else "/reused-piv"), "response to PIV %s verified against request PIV %s" % (req_id_c.partial_iv.hex(), req_id_c2.partial_iv.hex())))
        elif res[0] == "other":
            vio.append(V("C11/binding-check-raises/" + exc_key(res[1]), repr(res[1])))
    # ---- O1 again with the roles swapped on the same pair of context objects: the former server sends a request under
    # the very sequence number the former client used; a matching context that has seen none of the earlier traffic
    # (a fresh copy of the former client) must be able to unprotect it
    if c.get("reverse"):
        try:
            server.sender_sequence_number = int.from_bytes(req_id_c.partial_iv, "big")
            inner_rev = build_inner(c["req_code"], c["req_opts"], req_payload, None, None)
            outer_rev, _ = server.protect(inner_rev)
            wire_rev, _ = E.over_the_wire(outer_rev, mid=0x4321)
            fresh_client, _ = pair()
            res = attempt_unprotect(fresh_client, wire_rev)
            labels.add("role-reversal")
            if res[0] != "message":
                vio.append(V("C11/authentic-request-not-accepted/after-role-reversal", "the former server's request under the same sequence number: %r" % (res[1:],)))
            elif bytes(res[1].payload) != req_payload:
                vio.append(V("C11/request-roundtrip-differs", "after role reversal"))
        except Exception as e:
            vio.append(V("C11/protect-raises/" + exc_key(e), "role reversal: %r" % e))
    # ---- O4 tampering, on the request and on the response
    reached_decrypt = False
    rejected_first_done = False
    for kind, n in c["tamper"]:
        for which in ("request", "response"):
            data = req_bytes if which == "request" else resp_bytes
            f = R.decode(data)
            optraw = dict(f["options"]).get(9, b"")
            payload = f["payload"]
            target_ctx, rid = (server, None) if which == "request" else (client, req_id_c)
            fresh_client, fresh_server = pair()
            # a fresh recipient, so that the replay window plays no role
            rcpt = fresh_server if which == "request" else client
            new_opt, new_payload = optraw, payload
            skip_case = False
            if kind == "ct-bit":
                if not payload:
                    continue
                b = bytearray(payload)
                b[(n // 8) % len(b)] ^= 1 << (n % 8)
                new_payload = bytes(b)
                reached_decrypt = True
            elif kind == "opt-bit":
                if not optraw:
                    continue
                b = bytearray(optraw)
                b[(n // 8) % len(b)] ^= 1 << (n % 8)
                new_opt = bytes(b)
            elif kind == "opt-trunc":
                if not optraw:
                    continue
                new_opt = optraw[: n % len(optraw)]
            elif kind == "opt-extend":
                new_opt = optraw + bytes([n % 256])
                if which == "response" and not (optraw and optraw[0] & 0x08):
                    pass
            elif kind in ("opt-piv", "opt-piv-pad", "opt-kid", "opt-idctx", "opt-insert-idctx", "opt-other"):
                if not optraw:
                    continue
                first = optraw[0]
                pivlen = first & 7
                piv = optraw[1 : 1 + pivlen]
                rest = optraw[1 + pivlen :]
                has_h, has_k = bool(first & 0x10), bool(first & 0x08)
                idctx = b""
                if has_h and rest:
                    s_ = rest[0]
                    idctx = rest[1 : 1 + s_]
                    rest = rest[1 + s_ :]
                kid = rest if has_k else b""
                if kind == "opt-piv":
                    if not pivlen:
                        continue
                    newpiv = ((int.from_bytes(piv, "big") + 1 + n % 7) % (1 << (8 * pivlen))).to_bytes(pivlen, "big")
                    if newpiv == piv or newpiv.lstrip(b"\0") == piv.lstrip(b"\0") and which == "response":
                        continue
                    piv = newpiv
                elif kind == "opt-piv-pad":
                    # the same number written with leading zero bytes: for a request the partial IV bytes are part of the AAD
                    if not pivlen or pivlen >= 5:
                        continue
                    piv = b"\0" * (1 + n % (5 - pivlen)) + piv
                elif kind == "opt-kid":
                    if not has_k:
                        continue
                    kid = bytes([(kid[0] ^ 0x55) if kid else 0x55]) + kid[1:]
                elif kind == "opt-idctx":
                    if not has_h:
                        continue
                    idctx = bytes([(idctx[0] ^ 0x33) if idctx else 0x33]) + idctx[1:]
                elif kind == "opt-insert-idctx":
                    if has_h:
                        continue
                    has_h = True
                    idctx = b"\xc7"
                elif kind == "opt-other":
                    # the option of a different (also authentic) message of the same sender
                    if which == "request":
                        om, _ = fresh_client.protect(build_inner(1, [], b""))
                        om2, _ = fresh_client.protect(build_inner(1, [], b""))
                        new_opt = bytes(om2.opt.oscore)
                        if new_opt == optraw:
                            continue
                        skip_case = True
                    else:
                        continue
                if not skip_case:
                    first = (first & 0xE0) | len(piv) | (0x10 if has_h else 0) | (0x08 if has_k else 0)
                    new_opt = bytes([first]) + piv + ((bytes([len(idctx)]) + idctx) if has_h else b"") + kid
                    if new_opt == optraw:
                        continue
            elif kind.startswith("ctx-"):
                over = {
                    "ctx-secret": {"secret": x["secret"] + b"\x01"},
                    "ctx-salt": {"salt": x["salt"] + b"\x01"},
                    "ctx-sid": {"sid": (x["sid"] + b"\x01")[: IV_BYTES[x["alg"]] - 6] if len(x["sid"]) < IV_BYTES[x["alg"]] - 6 else bytes([x["sid"][0] ^ 1]) + x["sid"][1:]},
                    "ctx-rid": {"rid": (x["rid"] + b"\x01")[: IV_BYTES[x["alg"]] - 6] if len(x["rid"]) < IV_BYTES[x["alg"]] - 6 else bytes([x["rid"][0] ^ 1]) + x["rid"][1:]},
                    # another ID context: a longer one, or -- the smallest possible difference -- empty versus absent
                    "ctx-idctx": {"idctx": (b"" if x["idctx"] is None else None) if (n % 3 == 0 and x["idctx"] in (None, b"")) else (x["idctx"] or b"") + b"\x01"},
                    "ctx-alg": {"alg": [a for a in ALGS if IV_BYTES[a] == IV_BYTES[x["alg"]] and a != x["alg"]][n % max(1, len([a for a in ALGS if IV_BYTES[a] == IV_BYTES[x["alg"]] and a != x["alg"]]))] if [a for a in ALGS if IV_BYTES[a] == IV_BYTES[x["alg"]] and a != x["alg"]] else x["alg"]},
                }[kind]
                if over.get("sid") == x["rid"] or over.get("rid") == x["sid"] or over == {"alg": x["alg"]}:
                    continue
                oc, os_ = pair(**over)
                rcpt = os_ if which == "request" else oc
                if which == "response":
                    # the other context's view of the request identifiers
                    rid = oscore.RequestIdentifiers(req_id_c.kid, req_id_c.partial_iv, can_reuse_nonce=None, request_code=outer_req.code)
                reached_decrypt = True
            if kind in ("ctx-rid",) and which == "request" or kind in ("ctx-sid",) and which == "response":
                continue  # that identifier takes no part in verifying this direction
            if new_opt != optraw and same_meaning(optraw, new_opt, which, x["rid"], x["idctx"]):
                labels.add("same-meaning-skipped")
                continue
            if kind == "opt-extend" and not (optraw and optraw[0] & 0x08):
                # bytes after the last announced field (no KID follows): not a change to PIV, KID or ID context
                labels.add("trailing-bytes(informational)")
                continue
            opts = [(nn, raw) for nn, raw in f["options"] if nn != 9] + [(9, new_opt)]
            opts.sort(key=lambda o: o[0])
            tampered = R.encode(dict(f, options=opts, payload=new_payload))
            try:
                wire = clone_wire(tampered)
            except Exception:
                continue
            res = attempt_unprotect(rcpt, wire, rid, is_request=(which == "request"), direct_fallback=True)
            labels.add("tamper-" + kind)
            if which == "request" and kind in ("ct-bit", "ctx-secret", "ctx-salt") and not rejected_first_done:
                # a rejected copy that arrives *before* the genuine message must not cost the genuine one its acceptance
                rejected_first_done = True
                _, fresh_server = pair()
                try:
                    r1 = attempt_unprotect(fresh_server, clone_wire(tampered), None, is_request=True)
                    r2 = attempt_unprotect(fresh_server, clone_wire(req_bytes), None, is_request=True)
                    if r1[0] != "message" and r2[0] != "message":
                        vio.append(V("C11/authentic-request-not-accepted/after-rejected-copy", "a manipulated copy (%s) was rejected first; then the genuine request: %r" % (kind, r2[1:])))
                except Exception as e:
                    vio.append(V("C11/tampering-raises-non-protection-error/%s" % exc_key(e), repr(e)))
            if res[0] == "message":
                vio.append(V("C11/tampered-message-accepted/%s/%s" % (kind, which), "option %s -> %s, payload changed: %s; yielded %s" % (optraw.hex(), new_opt.hex(), new_payload != payload, res[1])))
            elif res[0] == "other":
                vio.append(V("C11/tampering-raises-non-protection-error/%s" % exc_key(res[1]), "%s %s: option %s -> %s: %r" % (kind, which, optraw.hex(), new_opt.hex(), res[1])))
            elif res[0] == "rejected" and kind in ("opt-bit", "opt-piv", "ct-bit"):
                reached_decrypt = True
    nopts = len(c["req_opts"])
    labels.add("alg-" + x["alg"])
    return Outcome(vio, sorted(labels), nopts >= 3 or reached_decrypt)


def selftest():
    assert E.vector_selftest() == (21, 0), E.vector_selftest()
    E.cbor_selftest()
    oscore = E.setup()
    # the oracle can fail: an AAD that ignores the request's partial IV breaks the binding
    orig = oscore.BaseSecurityContext._extract_external_aad

    def bad(self, message, request_id, local_is_sender):
        rid = oscore.RequestIdentifiers(request_id.kid, b"\0", None, 1)
        rid.request_hash = request_id.request_hash
        return orig(self, message, rid, local_is_sender)

    oscore.BaseSecurityContext._extract_external_aad = bad
    try:
        c = {"ctx": {"alg": "AES-CCM-16-64-128", "sid": b"", "rid": b"\x01", "idctx": None, "salt": b"", "secret": b"0123456789abcdef", "cseq": 5, "sseq": 0}, "req_code": 1, "req_opts": [], "req_payload": 0, "observe": None, "uri_host": None, "resp_code": 69, "resp_opts": [], "resp_payload": 20, "resp_own_piv": True, "tamper": [], "second": True}
        out = run_case(c)
    finally:
        oscore.BaseSecurityContext._extract_external_aad = orig
    assert out.violations, "oracle cannot fail"


RULE = (
    "A pair of matching security contexts (8 AEAD algorithms incl. 7-, 12- and 13-byte nonces; sender/recipient IDs of every admissible length 0..iv-6, distinct; ID context none or 0-16 bytes; "
    "salt, secret; sequence numbers chosen so that partial IVs of 1-5 bytes occur) protects a generated request (7 methods, 0-7 end-to-end options out of 18 kinds incl. Block, ETag, Echo, unknown "
    "elective/critical numbers, repeated; payload 0-2000 bytes with a marker; optionally Observe and Uri-Host) and a response to it (7 codes, own or reused partial IV); both travel as bytes "
    "(encode -> Message.decode) and are unprotected through the sequence real callers use (_extract_encrypted0 -> get_oscore_context_for / context_from_response -> unprotect). Oracles: round trip of "
    "code, options, payload; outer code in {POST, FETCH, 2.04, 2.05}, outer option numbers within {OSCORE, Uri-Host, Uri-Port, Proxy-Uri, Proxy-Scheme, Observe}, marker and inner string option values "
    "absent from the outer bytes; the response does not verify with the identifiers of a second request; 2-8 tamperings applied to request and response (bit flip in ciphertext||tag, bit flip / truncation / "
    "extension of the OSCORE option, changed PIV / zero-padded PIV (requests) / KID / ID context, inserted ID context, option of another message, recipient context differing in secret / salt / sender ID / recipient ID / ID context / "
    "algorithm) must end in ProtectionInvalid (or subclass) or 'no context found' -- never a message, never another exception type. Non-trivial = >= 3 inner options, or a tampering that reached "
    "decryption. Distinct = SHA-1 of the case."
)


def build(tier):
    E.setup()
    return CheckSpec(
        [Sub("protect", run_case, strategy=_case, budget={"quick": 1500, "thorough": 200000}, max_wall={"quick": 55, "thorough": 3600})],
        RULE,
        assumptions=[
            "runs on CPython 3.11 with Debian's python3-cryptography and pure-Python shims for cbor2 and filelock (validated against the RFC 8613 Appendix C vectors of tests/test_oscore.py in the self-test)",
            "zero-padding the partial IV of a *response* is not counted as a change (RFC 8613 does not authenticate the encoding; the value is unchanged)",
            "Group OSCORE / EDHOC are out of scope (ge25519, lakers not available)",
        ],
        selftest=selftest,
    )
