"""C05 -- block-wise client against an independent RFC 7959 reference server on a raw peer."""

from hypothesis import strategies as st

from vlib import refcodec as R
from vlib.runner import CheckSpec, Outcome, Sub, V
from vlib.simnet import ReqLog, SimNet

ID = "C05"
LEVEL = "exploration"

X = ("fd00::1", 5683)
S = ("fd00::2", 5683)
SIZES = [0, 1, 15, 16, 17, 31, 32, 33, 63, 64, 65, 1023, 1024, 1025, 1124, 1125, 2048, 2049, 3000, 5000]
METHODS = {"GET": 1, "POST": 2, "PUT": 3, "FETCH": 5}
MISBEHAVIOURS = ["none", "none", "none", "wrong_num_in_block1_ack", "more_on_final_ack", "continue_on_final_ack", "short_nonfinal_block2", "overlong_final_block2", "block2_num_skipped", "etag_change", "block2_num_repeated", "block2_restart_bigger"]


def body(n, salt):
    return bytes((i * 7 + salt + (i >> 8)) % 251 for i in range(n))


def bsize(szx):
    return 2 ** (szx + 4)


class RefServer:
    """RFC 7959 section 2 server, written from the RFC (no aiocoap import)"""

    def __init__(self, case):
        self.case = case
        self.rep = body(case["resp_len"], 3)
        self.assembly = None
        self.last_szx1 = None
        self.bodies = []  # completed request bodies (the action is executed once per completed body)
        self.client_errors = []
        self.by_mid = {}
        self.b1_index = 0
        self.b2_index = 0
        self.applied = False
        self.block2_requests = []

    def etag(self, index):
        c = self.case
        if c["misbehaviour"] == "etag_change":
            # "ETag differs": another value, an ETag where there was none, or none where there was one
            mode = c.get("etag_mode", "value")
            if index >= max(1, c.get("mis_at", 1)):
                return None if mode == "disappears" else b"E2"
            return None if mode == "appears" else b"E1"
        return b"E1" if c.get("etag", True) else None

    def response_slice(self, offset, szx):
        """-> (options, payload) for the representation slice starting at offset, honouring a mid-transfer size reduction"""
        c = self.case
        mis = c["misbehaviour"]
        if c.get("shrink2_at") is not None and self.b2_index >= c["shrink2_at"]:
            szx = min(szx, c["shrink2_to"])
        size = bsize(szx)
        num = offset // size
        index = self.b2_index
        self.b2_index += 1
        chunk = self.rep[offset : offset + size]
        more = offset + size < len(self.rep)
        at = c.get("mis_at", 1)
        if mis == "short_nonfinal_block2" and more and index >= at and not self.applied:
            # "missing payload bytes": one byte, half of the block, or all of it
            cut = {"one": 1, "half": max(1, len(chunk) // 2), "all": len(chunk)}[c.get("mis_cut", "one")]
            chunk = chunk[: len(chunk) - cut]
            self.applied = True
        elif mis == "overlong_final_block2" and not more and index >= 1:
            chunk = chunk + b"\x99" * (size - len(chunk) + 1)
            self.applied = True
        elif mis == "block2_num_skipped" and index >= max(1, at) and more and not self.applied:
            num += max(1, c.get("mis_delta", 1))
            chunk = self.rep[num * size : (num + 1) * size]
            more = (num + 1) * size < len(self.rep)
            self.applied = True
        elif mis == "block2_restart_bigger" and index >= 1 and num > 0 and szx < 6 and not self.applied:
            # "start over with bigger blocks": block 0 again, at a larger size exponent than the one in use
            szx = min(6, szx + c.get("mis_delta_szx", 1))
            size = bsize(szx)
            num = 0
            chunk = self.rep[:size]
            more = size < len(self.rep)
            self.applied = True
        elif mis == "block2_num_repeated" and index >= max(1, at) and num > 0 and not self.applied:
            num -= 1
            chunk = self.rep[num * size : (num + 1) * size]
            more = True
            self.applied = True
        opts = [(R.O_BLOCK2, (num, more, szx))]
        et = self.etag(index)
        if et is not None:
            opts.append((R.O_ETAG, et))
        if mis == "etag_change" and index >= max(1, at):
            self.applied = True
        return opts, chunk

    def handle(self, f):
        """-> (code, options, payload)"""
        c = self.case
        mis = c["misbehaviour"]
        b1 = R.opt(f, R.O_BLOCK1)
        b2 = R.opt(f, R.O_BLOCK2)
        method = f["code"]
        ok_code = R.CONTENT if method in (1, 5) else R.CHANGED
        if b2 is not None and b2[0] > 0:
            # continuation of reading the response: never re-executes the action
            self.block2_requests.append(b2)
            if b2[1]:
                self.client_errors.append("M bit set in a Block2 request")
            offset = b2[0] * bsize(b2[2])
            if offset >= len(self.rep):
                return (R.BAD_REQUEST, [], b"")
            opts, chunk = self.response_slice(offset, min(b2[2], c["szx2"]))
            return (ok_code, opts, chunk)
        # an action request
        if b1 is None:
            self.bodies.append(bytes(f["payload"]))
            self.assembly = None
        else:
            num, more, szx = b1
            size = bsize(szx)
            offset = num * size
            if num == 0:
                self.assembly = bytearray()
                self.last_szx1 = None
                self.b1_index = 0
            if self.assembly is None or offset != len(self.assembly):
                self.client_errors.append("Block1 not contiguous: NUM %d x %d = %d, received so far %s" % (num, size, offset, None if self.assembly is None else len(self.assembly)))
                return (R.REQUEST_ENTITY_INCOMPLETE, [], b"")
            if more and len(f["payload"]) != size:
                self.client_errors.append("non-final Block1 payload %d != block size %d" % (len(f["payload"]), size))
                return (R.BAD_REQUEST, [], b"")
            if not more and len(f["payload"]) > size:
                self.client_errors.append("final Block1 payload %d > block size %d" % (len(f["payload"]), size))
                return (R.BAD_REQUEST, [], b"")
            if self.last_szx1 is not None and szx > self.last_szx1:
                self.client_errors.append("Block1 size exponent grew from %d to %d" % (self.last_szx1, szx))
            self.last_szx1 = szx
            self.assembly += f["payload"]
            index = self.b1_index
            self.b1_index += 1
            prefs = c.get("szx1", [6])
            pref = prefs[min(index, len(prefs) - 1)]
            # a server states the size it prefers; one that prefers larger blocks than the client sends may say so --
            # the client must never follow upwards (RFC 7959 2.5: the exponent does not grow)
            ack_szx = pref if c.get("ack_larger") else min(szx, pref)
            if more:
                ack_num = num
                if mis == "wrong_num_in_block1_ack" and index >= c.get("mis_at", 0) and not self.applied:
                    delta = c.get("mis_delta", 1)
                    ack_num = num + delta if num + delta >= 0 else num + 1
                    self.applied = True
                if c.get("b1_stateless") and ack_num == num:
                    # a server that processes the blocks one by one (RFC 7959 2.5: M=0 in the response to a non-final
                    # block: "processed individually") answers each with the final code; the client just sends the next one
                    return (R.CHANGED, [(R.O_BLOCK1, (ack_num, False, ack_szx))], b"")
                return (R.CONTINUE, [(R.O_BLOCK1, (ack_num, True, ack_szx))], b"")
            self.bodies.append(bytes(self.assembly))
            self.assembly = None
            if mis == "wrong_num_in_block1_ack" and c.get("mis_final") and num > 0 and not self.applied:
                self.applied = True
                delta = c.get("mis_delta", 1)
                return (ok_code, [(R.O_BLOCK1, (num + delta if num + delta >= 0 else num + 1, False, ack_szx))], b"")
            if mis == "more_on_final_ack":
                self.applied = True
                return (ok_code, [(R.O_BLOCK1, (num, True, ack_szx))], b"")
            if mis == "continue_on_final_ack":
                self.applied = True
                return (R.CONTINUE, [(R.O_BLOCK1, (num, False, ack_szx))], b"")
        # the response to the completed action
        opts = []
        if b1 is not None:
            opts.append((R.O_BLOCK1, (b1[0], False, c.get("szx1", [6])[-1] if c.get("ack_larger") else min(b1[2], c.get("szx1", [6])[-1]))))
        szx2 = c["szx2"] if b2 is None else min(b2[2], c["szx2"])
        self.b2_index = 0
        if len(self.rep) > bsize(szx2) or b2 is not None:
            o2, chunk = self.response_slice(0, szx2)
            return (ok_code, opts + o2, chunk)
        et = self.etag(0)
        if et is not None:
            opts.append((R.O_ETAG, et))
        return (ok_code, opts, self.rep)


def run_case(case, want_trace=False):
    from aiocoap import Message, error
    from aiocoap.numbers.codes import Code
    from aiocoap.numbers.constants import TransportTuning

    net = SimNet(fates=case.get("fates", ()), rng_seed=case.get("rng", 0))
    net._logger.setLevel(100)
    vio = []
    labels = set()
    try:
        x = net.add_context("X", *X)
        srv = RefServer(case)

        def handler(peer, t, src, f, raw):
            if f is None or f["code"] == 0 or (f["code"] >> 5) != 0:
                return
            key = f["mid"]
            if key in srv.by_mid:
                peer.send(src, srv.by_mid[key])
                return
            code, opts, payload = srv.handle(f)
            if f["type"] == R.CON:
                data = R.msg(R.ACK, code, f["mid"], f["token"], opts, payload)
            else:
                data = R.msg(R.NON, code, peer.next_mid(), f["token"], opts, payload)
            srv.by_mid[key] = data
            peer.send(src, data)

        s = net.add_raw("S", *S, handler=handler)

        class Fast(TransportTuning):
            ACK_TIMEOUT = 1.0
            ACK_RANDOM_FACTOR = 1.0
            MAX_RETRANSMIT = 2

        req_body = body(case["req_len"], 11)
        log = ReqLog(net)
        holder = {}

        def start():
            m = Message(code=Code(METHODS[case["method"]]), payload=req_body if case["method"] != "GET" else b"", transport_tuning=Fast())
            m.opt.uri_path = ("blk",)
            m.remote = x.remote(s)
            m.remote.maximum_block_size_exp = case["client_exp"]
            holder["it"] = log.start(x, m, blockwise=True)

        net.at(1.0, start)
        net.run_until(400.0)

        kind, val = ReqLog.outcome(holder["it"])
        mis = case["misbehaviour"]
        sent_body = req_body if case["method"] != "GET" else b""
        lossy = any(f[0] == "drop" for f in case.get("fates", []))
        labels.add("mis-" + mis + ("-applied" if srv.applied else "")) if mis != "none" else labels.add("conforming-server")
        labels.add("outcome-" + kind)
        # what the client put on the wire must satisfy the RFC 7959 consistency rules (judged by the reference server)
        for e in srv.client_errors:
            # a 4.08 after the server misbehaved is a consequence, not a client fault
            if srv.applied and mis in ("wrong_num_in_block1_ack",):
                continue
            vio.append(V("C05/client-block-options-inconsistent", e))
            break
        # Block2 requests: contiguous offsets, exponent never grows
        prev = None
        for b2 in srv.block2_requests:
            if prev is not None and b2[2] > prev[2]:
                vio.append(V("C05/block2-size-exponent-grew", "%r after %r" % (b2, prev)))
            prev = b2
        if kind == "result":
            got = bytes(val.payload)
            if got != srv.rep:
                vio.append(V("C05/wrong-response-body/" + ("conforming" if not srv.applied else mis), "returned %d bytes, representation has %d; first difference at %s; server misbehaviour %s applied=%s" % (len(got), len(srv.rep), next((i for i, (a_, b_) in enumerate(zip(got, srv.rep)) if a_ != b_), min(len(got), len(srv.rep))), mis, srv.applied)))
            if not srv.bodies or srv.bodies[-1] != sent_body:
                vio.append(V("C05/wrong-request-body", "server reassembled %r bytes, API payload has %d" % ([len(b) for b in srv.bodies], len(sent_body))))
            if len(srv.bodies) > 1 and not lossy:
                vio.append(V("C05/action-executed-twice", "%d completed bodies" % len(srv.bodies)))
            ok_code = R.CONTENT if METHODS[case["method"]] in (1, 5) else R.CHANGED
            if int(val.code) != ok_code and not srv.applied:
                vio.append(V("C05/wrong-response-code", "%s" % val.code))
            if srv.applied and mis in ("more_on_final_ack", "continue_on_final_ack", "wrong_num_in_block1_ack", "etag_change", "short_nonfinal_block2", "overlong_final_block2", "block2_num_skipped", "block2_num_repeated", "block2_restart_bigger"):
                vio.append(V("C05/misbehaving-server-accepted/" + mis, "request completed with %s although the server violated the sequencing rules (%s)" % (val.code, mis)))
        elif kind == "exception":
            if not isinstance(val, error.Error):
                vio.append(V("C05/non-library-error/" + type(val).__name__, repr(val)))
            elif not srv.applied:
                if not (lossy and isinstance(val, error.NetworkError)):
                    vio.append(V("C05/conforming-transfer-fails/" + type(val).__name__, "%r (req %d, resp %d, client_exp %d, szx1 %r, szx2 %d)" % (val, case["req_len"], case["resp_len"], case["client_exp"], case.get("szx1"), case["szx2"])))
        else:
            vio.append(V("C05/request-" + kind, repr(val)))
        for t, msg, e, exc in net.loop_exceptions:
            vio.append(V("C05/loop-exception/" + type(exc).__name__, "%s %s" % (msg, e)))
        nb1 = srv.b1_index
        nb2 = len(srv.block2_requests)
        if nb1 >= 2:
            labels.add("block1-multi")
        if nb2 >= 1:
            labels.add("block2-multi")
        if case.get("ack_larger") and nb1 >= 2:
            labels.add("server-advertises-larger-block1-size")
        if len(set(case.get("szx1", [6]))) > 1 and nb1 >= 2:
            labels.add("block1-size-reduced")
        if case.get("shrink2_at") is not None and nb2 >= 1:
            labels.add("block2-size-reduced")
        info = {"trace": net.trace(120)} if (want_trace or vio) else None
        return Outcome(vio, sorted(labels), nb1 >= 2 or nb2 >= 1, info)
    finally:
        for ep in list(net._contexts):
            try:
                net.shutdown_context(ep)
            except Exception:
                pass
        net.close()


@st.composite
def _case(draw):
    method = draw(st.sampled_from(["PUT", "POST", "FETCH", "GET"]))
    client_exp = draw(st.integers(0, 6))
    n_pref = draw(st.integers(1, 4))
    prefs = sorted([draw(st.integers(0, 6)) for _ in range(n_pref)], reverse=True)
    case = {
        "method": method,
        "req_len": draw(st.sampled_from(SIZES)),
        "resp_len": draw(st.sampled_from(SIZES)),
        "client_exp": client_exp,
        "szx1": prefs,
        "szx2": draw(st.integers(0, 6)),
        "etag": draw(st.booleans()),
        "misbehaviour": draw(st.sampled_from(MISBEHAVIOURS)),
        "mis_at": draw(st.integers(0, 3)),
        "mis_cut": draw(st.sampled_from(["one", "half", "all"])),
        "mis_delta": draw(st.sampled_from([1, 1, 2, 5, -1])),
        "mis_final": draw(st.booleans()),
        "mis_delta_szx": draw(st.sampled_from([1, 1, 2, 6])),
        "rng": draw(st.integers(0, 99)),
    }
    if draw(st.integers(0, 3)) == 0:
        case["ack_larger"] = True
    if draw(st.integers(0, 4)) == 0:
        case["b1_stateless"] = True
    if draw(st.integers(0, 2)) == 0:
        case["shrink2_at"] = draw(st.integers(1, 3))
        case["shrink2_to"] = draw(st.integers(0, 5))
    if case["misbehaviour"] == "etag_change":
        case["etag"] = True
        case["etag_mode"] = draw(st.sampled_from(["value", "appears", "disappears"]))
    if draw(st.integers(0, 3)) == 0:
        case["fates"] = draw(st.lists(st.sampled_from([["deliver", 0.001]] * 5 + [["drop"], ["dup", 0.001, 0.3], ["deliver", 1.2]]), max_size=10))
    return case


def selftest():
    # reference server sanity: a hand-made RFC 7959 exchange
    c = {"resp_len": 40, "szx2": 0, "szx1": [0], "misbehaviour": "none", "etag": False}
    s = RefServer(c)
    r = s.handle(dict(code=3, options=[(27, R.block_bytes(0, True, 0))], payload=b"a" * 16, token=b"", mid=1, type=0))
    assert r[0] == R.CONTINUE and r[1] == [(R.O_BLOCK1, (0, True, 0))], r
    r = s.handle(dict(code=3, options=[(27, R.block_bytes(1, False, 0))], payload=b"b" * 3, token=b"", mid=2, type=0))
    assert r[0] == R.CHANGED and s.bodies == [b"a" * 16 + b"b" * 3] and (R.O_BLOCK2, (0, True, 0)) in r[1] and len(r[2]) == 16, r
    r = s.handle(dict(code=3, options=[(23, R.block_bytes(2, False, 0))], payload=b"", token=b"", mid=3, type=0))
    assert r[1][0] == (R.O_BLOCK2, (2, False, 0)) and r[2] == s.rep[32:40]
    r = s.handle(dict(code=3, options=[(27, R.block_bytes(2, False, 0))], payload=b"x", token=b"", mid=4, type=0))
    assert r[0] == R.REQUEST_ENTITY_INCOMPLETE and s.client_errors


RULE = (
    "One block-wise request (PUT/POST/FETCH/GET) through the default API of a real aiocoap client to an independent RFC 7959 reference server on a raw peer; generated: request and response "
    "body lengths from {0,1,15,16,17,31,32,33,63,64,65,1023,1024,1025,1124,1125,2048,2049,3000,5000}, client maximum_block_size_exp 0-6, the server's Block1 size preference per block index "
    "(non-increasing => mid-transfer reductions; optionally advertised even when larger than what the client sends), its Block2 size and an optional mid-transfer Block2 reduction with renumbering, ETag present or not, datagram fates (drop/dup/delay), and a "
    "misbehaviour (none / wrong NUM in a Block1 ack / M=1 or 2.31 on the final ack / non-final Block2 payload short by one byte, half a block or the whole block / over-long final Block2 payload / Block2 NUM skipped or repeated / block 0 again at a larger size exponent / ETag changes its value, appears or disappears between blocks). "
    "Oracle: conforming server => body reassembled by the reference server == API payload, result payload == representation, expected code, action executed once, and the reference server found every "
    "Block1/Block2 option contiguous (NUM x size == bytes so far), M exactly on non-final blocks, exponent never growing; failure only as NetworkError under loss. Misbehaving server (once the "
    "misbehaviour was actually applied) => the request must end in an aiocoap.error.Error; any result is a violation. Never a result whose payload differs from the representation. "
    "Non-trivial = >= 2 blocks in at least one direction. Distinct = SHA-1 of the case."
)


def build(tier):
    return CheckSpec(
        [Sub("transfers", run_case, strategy=_case, budget={"quick": 2500, "thorough": 250000}, max_wall={"quick": 55, "thorough": 3600})],
        RULE,
        assumptions=["OS boundary replaced by vlib.simnet", "szx 7 (BERT) is not negotiable over UDP and not generated", "the reference server in checks/c05.py is a correct reading of RFC 7959 section 2 (self-tested on a hand-made exchange)"],
        selftest=selftest,
    )
