"""C08 -- observe server: per-registration history invariant (token, increasing Observe, eventual latest state,
end causes, exactly-once cancellation, observer count)."""

from hypothesis import strategies as st

from vlib import refcodec as R
from vlib.runner import CheckSpec, Outcome, Sub, V
from vlib.simnet import SimNet

ID = "C08"
LEVEL = "exploration"

X = ("fd00::1", 5683)
OBSERVERS = [("fd00::2", 5683), ("fd00::3", 5683), ("fd00::2", 6003)]
TOKENS = [b"\x71", b"\x72\x01"]
PROBE_T = 700.0
END_T = 900.0


def make_site(net, render_delay=0.0):
    import aiocoap
    from aiocoap import resource

    class Counter(resource.ObservableResource):
        def __init__(self):
            super().__init__()
            self.state = 0
            self.fail = False

        def update_observation_count(self, newcount):
            net.events.append((net.loop.time(), "obs-count", newcount))

        async def render_get(self, request):
            if self.fail:
                return aiocoap.Message(code=aiocoap.numbers.codes.Code(R.NOT_FOUND), payload=b"gone")
            seen = self.state
            if render_delay:
                # a rendering that takes time: state changes may land while it is under way
                import asyncio

                await asyncio.sleep(render_delay)
            return aiocoap.Message(payload=b"state-%d" % seen)

    site = resource.Site()
    res = Counter()
    site.add_resource(["cnt"], res)
    return site, res


def run_case(case, want_trace=False):
    net = SimNet(fates=case.get("fates", ()), rng_seed=case.get("rng", 0))
    net._logger.setLevel(100)
    vio = []
    labels = set()
    try:
        rdelay = case.get("render_delay", 0.0)
        site, res = make_site(net, rdelay)
        x = net.add_context("X", *X, site=site)
        reactions = {i: list(case.get("reactions", {}).get(str(i), [])) for i in range(len(OBSERVERS))}
        seen_mids = {i: {} for i in range(len(OBSERVERS))}
        rst_times = []  # (t_delivery_expected, observer, token) filled from deliveries later

        def make_handler(oi):
            def handler(peer, t, src, f, raw):
                if f is None or f["code"] == 0 or (f["code"] >> 5) == 0:
                    return
                if f["type"] != R.CON:
                    return
                if f["mid"] in seen_mids[oi]:
                    re = seen_mids[oi][f["mid"]]
                else:
                    re = reactions[oi].pop(0) if reactions[oi] else ["ack", 0.0]
                    seen_mids[oi][f["mid"]] = re
                if re[0] == "ack":
                    peer.send(src, R.msg(R.ACK, 0, f["mid"]), re[1])
                elif re[0] == "rst":
                    peer.send(src, R.msg(R.RST, 0, f["mid"]), re[1])

            return handler

        peers = [net.add_raw("o%d" % i, ip, port, handler=make_handler(i)) for i, (ip, port) in enumerate(OBSERVERS)]
        bumps = []  # (t, state)

        def bump(n=1):
            for _ in range(n):
                res.state += 1
                bumps.append((net.loop.time(), res.state))
                res.updated_state()

        mid_counter = [0x7100]

        def client_req(ev):
            mid_counter[0] += 1
            opts = [(R.O_URI_PATH, "cnt")]
            if ev["kind"] == "register":
                opts.append((R.O_OBSERVE, 0))
            elif ev["kind"] == "deregister":
                opts.append((R.O_OBSERVE, 1))
            peers[ev["observer"]].send(X, R.msg(R.CON if ev["con"] else R.NON, R.GET, mid_counter[0], TOKENS[ev["token"]], opts))

        def app(ev):
            import aiocoap

            if ev["kind"] == "bump":
                bump(ev.get("n", 1))
            elif ev["kind"] == "last":
                for o in list(res._observations):
                    o.trigger(None, is_last=True)
                net.order += 1
                net.events.append((net.loop.time(), "end-all", "last", net.order))
                if ev.get("then_bump"):
                    # a state change right behind the "this is the last one" trigger: the pending notification
                    # picks up the newer state, but it stays the last one
                    bump(ev["then_bump"])
            elif ev["kind"] == "unsuccessful":
                res.updated_state(aiocoap.Message(code=aiocoap.numbers.codes.Code(R.INTERNAL_SERVER_ERROR), payload=b"bye"))
                net.order += 1
                net.events.append((net.loop.time(), "end-all", "unsuccessful", net.order))
            elif ev["kind"] == "icmp":
                net.inject_error(x, OBSERVERS[ev["observer"]])

        for ev in case["events"]:
            if ev["kind"] in ("register", "plain", "deregister"):
                net.at(1.0 + ev["t"], client_req, ev)
            else:
                net.at(1.0 + ev["t"], app, ev)
        shutdown_at = case.get("shutdown")
        deliveries = []
        net.after_delivery = lambda d: deliveries.append(d)
        if shutdown_at is not None:
            net.run_until(1.0 + shutdown_at)
            net.shutdown_context(x)
            net._contexts.remove(x)
            net.order += 1
            net.events.append((net.loop.time(), "shutdown", None, net.order))
        net.run_until(PROBE_T)
        # probe at quiescence: one more state change (scheduled on the loop, like an application would do it)
        probe_state = None
        for lst_ in reactions.values():
            del lst_[:]
        probe_err = []

        def probe():
            try:
                bump(1)
            except Exception as e:
                probe_err.append(e)

        net.at(PROBE_T + 0.001, probe)
        if rdelay and shutdown_at is None:
            # a burst whose last change lands while the notification for the first one is being rendered
            net.at(PROBE_T + 0.001 + rdelay / 2, probe)
        net.run_until(PROBE_T + 1.0)
        if probe_err:
            vio.append(V("C08/updated_state-raises/" + type(probe_err[0]).__name__, repr(probe_err[0])))
        elif shutdown_at is None:
            probe_state = res.state
        net.run_until(END_T)

        def state_of(payload):
            return int(payload.split(b"-")[1]) if payload.startswith(b"state-") else None

        def bump_time(s):
            for t, st_ in bumps:
                if st_ == s:
                    return t
            return 0.0

        # --------------------------- model ------------------------------------------
        wire = net.wire_fields()
        # first transmissions of X's messages per (dst, token)
        sent = {}
        for w in wire:
            f = w["fields"]
            if w["src"] != X or f is None or f["code"] == 0:
                continue
            key = (w["dst"], f["token"])
            lst = sent.setdefault(key, [])
            if any(m["mid"] == f["mid"] and m["data"] == w["data"] for m in lst):
                for m in lst:
                    if m["mid"] == f["mid"] and m["data"] == w["data"]:
                        m["copies"].append(w["t"])
                continue
            lst.append(dict(t=w["t"], mid=f["mid"], type=f["type"], code=f["code"], observe=R.opt(f, R.O_OBSERVE), payload=f["payload"], data=w["data"], copies=[w["t"]], seq=w["seq"]))
        # timeline of events that start/end registrations, in processing order
        timeline = []
        for d in deliveries:
            if d["to"] != "X":
                continue
            try:
                f = R.decode(d["data"])
            except R.FormatError:
                continue
            if 1 <= f["code"] < 32 and f["type"] in (R.CON, R.NON):
                timeline.append((d["order"], d["t"], "request", d["src"], f))
            elif f["type"] == R.RST and f["code"] == 0:
                timeline.append((d["order"], d["t"], "rst", d["src"], f))
        for e in net.events:
            if e[1] == "icmp-error":
                timeline.append((e[4], e[0], "icmp", e[3], None))
            elif e[1] == "end-all":
                timeline.append((e[3], e[0], "end-all", None, e[2]))
            elif e[1] == "shutdown":
                timeline.append((e[3], e[0], "shutdown", None, None))
        timeline.sort(key=lambda x_: x_[0])
        # pre-pass: start instants of all generations per key (a registration request that is processed starts one)
        starts = {}
        _seen = set()
        for order, t, kind, src, f in timeline:
            if kind == "request" and (src, f["mid"]) not in _seen:
                _seen.add((src, f["mid"]))
                if R.opt(f, R.O_OBSERVE) == 0:
                    starts.setdefault((src, f["token"]), []).append(t)

        def owner(key, m):
            i = owner_index(key, m)
            return None if i is None else (key, i)

        def owner_index(key, m):
            """start instant of the generation a message belongs to (None if none): the registration response sent at the
            instant of the request, otherwise by the instant its state changed"""
            ss = starts.get(key, [])
            own = None
            for i, t0 in enumerate(ss):
                if m["observe"] == 0 and t0 - 1e-9 <= m["t"] <= t0 + rdelay + 1e-9:  # the registration response always carries Observe 0
                    own = i  # of several generations starting at one instant only the last one gets to answer
            if own is not None:
                return own
            st_ = state_of(m["payload"])
            bt = bump_time(st_) if st_ is not None else m["t"]  # explicit responses carry no state: by sending time
            for i, t0 in enumerate(ss):
                if t0 - 1e-9 <= bt:
                    own = i
            return own

        # generations
        regs = []  # dict(key, t_start, t_end, cause, con)
        alive = {}
        seen_req_mids = set()
        for order, t, kind, src, f in timeline:
            if kind == "request":
                if (src, f["mid"]) in seen_req_mids:
                    continue  # duplicate, deduplicated by the message layer
                seen_req_mids.add((src, f["mid"]))
                key = (src, f["token"])
                if key in alive:
                    alive[key]["t_end"] = t
                    alive[key]["cause"] = "new-request-on-token"
                    del alive[key]
                if R.opt(f, R.O_OBSERVE) == 0 and not res_failed_at(case, t):
                    g = dict(key=key, t_start=t, t_end=None, cause=None, con=f["type"] == R.CON, index=len([h for h in regs if h["key"] == key]))
                    regs.append(g)
                    alive[key] = g
            elif kind == "rst":
                for key, g in list(alive.items()):
                    if key[0] != src:
                        continue
                    # does the RST match a notification of this registration?
                    for m in sent.get(key, []):
                        if m["mid"] == f["mid"] and m["t"] >= g["t_start"] and m["observe"] is not None and owner(key, m) == (key, g["index"]):
                            if m["type"] == R.CON:
                                g["t_end"], g["cause"] = t, "rst"
                                del alive[key]
                            else:
                                g["rst_on_non"] = True
                            break
            elif kind == "icmp":
                for key, g in list(alive.items()):
                    if key[0] == src:
                        g["t_end"], g["cause"] = t, "icmp"
                        del alive[key]
            elif kind == "end-all":
                later_trigger_same_instant = any(abs(bt - t) < 1e-9 for bt, _ in bumps)
                for key, g in list(alive.items()):
                    if f == "unsuccessful" and later_trigger_same_instant:
                        # the explicit response may have been superseded by a later trigger in the lossy one-slot queue
                        nxt_ = [m for m in sent.get(key, []) if m["t"] >= t - 1e-9 and owner(key, m) == (key, g["index"])]
                        if not nxt_ or (nxt_[0]["code"] >> 5) == 2:
                            continue
                    g["t_end"], g["cause"] = t, f
                    del alive[key]
            elif kind == "shutdown":
                for key, g in list(alive.items()):
                    g["t_end"], g["cause"] = t, "shutdown"
                    del alive[key]
        # time-outs of CON notifications (and of anything else sent CON to that remote: dispatch_error hits the remote)
        for (dst, tok), lst in sent.items():
            for m in lst:
                if m["type"] != R.CON or len(m["copies"]) < 5:
                    continue
                acked = any(d["to"] == "X" and d["src"] == dst and d["t"] > m["t"] and _is_reply(d, m["mid"]) for d in deliveries)
                if acked:
                    continue
                g1 = m["copies"][1] - m["copies"][0]
                t_give = m["copies"][0] + g1 * 31
                # the exchange may have been dropped before that: a transport error for the remote or the shutdown cancel it
                if any(k_ in ("icmp", "shutdown") and m["t"] <= t_ <= t_give and (k_ == "shutdown" or src_ == dst) for _o, t_, k_, src_, _f in timeline):
                    continue
                for g in regs:
                    if g["key"][0] == dst and g["t_start"] <= t_give and (g["t_end"] is None or g["t_end"] > t_give):
                        g["t_end"], g["cause"] = t_give, "timeout"
                        alive.pop(g["key"], None)

        # --------------------------- invariants -------------------------------------
        inflight_trigger = False
        for gi, g in enumerate(regs):
            key = g["key"]
            nxt = [h["t_start"] for h in regs[gi + 1 :] if h["key"] == key]
            t_next = nxt[0] if nxt else float("inf")
            # attribution: the registration response (sent at the instant the request was processed) plus every
            # notification whose state changed while this generation was the current one on the key; a notification
            # of the previous generation that was still queued behind NSTART keeps belonging to the previous one
            allm = [m for m in sent.get(key, []) if m["t"] >= g["t_start"] - 1e-9]
            msgs = [m for m in allm if owner(key, m) == (key, g["index"])]
            notifs = [m for m in msgs if m["observe"] is not None]
            # the first one is the registration response
            values = [m["observe"] for m in notifs]
            if any(b_ <= a_ for a_, b_ in zip(values, values[1:])):
                vio.append(V("C08/observe-values-not-increasing", "registration %s tok %s: %r" % (key[0], key[1].hex(), values)))
            labels.add("cause-%s" % g["cause"])
            if g.get("rst_on_non"):
                labels.add("rst-on-non-notification(informational)")
            if g["t_end"] is not None:
                # nothing rendered after the end may be sent for it
                for m in msgs:
                    if m["t"] <= g["t_end"] + 1e-6:
                        continue
                    s = state_of(m["payload"])
                    if m["observe"] is None:
                        continue  # not a notification: the answer to another request on the token, or the terminator itself
                    rendered_after_end = s is not None and bump_time(s) > g["t_end"] + 1e-6
                    if rendered_after_end:
                        vio.append(V("C08/notification-after-end/" + str(g["cause"]), "registration %s tok %s ended at %.4f by %s; state %s (changed at %.4f) was sent to it at %.4f" % (key[0], key[1].hex(), g["t_end"], g["cause"], s, bump_time(s), m["t"])))
                        break
            if g["t_end"] is None or g["t_end"] > PROBE_T:
                # alive at the probe: the probe state must have reached it
                if probe_state is not None:
                    if not any(state_of(m["payload"]) == probe_state for m in notifs):
                        vio.append(V("C08/latest-state-not-sent", "registration %s tok %s (alive): states sent %r, final state %d" % (key[0], key[1].hex(), [state_of(m["payload"]) for m in notifs][-5:], probe_state)))
            # a burst of changes while it was alive: the last state before the end (or probe) eventually sent
            if g["t_end"] is None or g["cause"] in ("new-request-on-token",):
                pass
            # triggers while a notification is in flight
            for m in notifs:
                if m["type"] == R.CON and any(m["t"] < bt < m["t"] + 0.3 for bt, _ in bumps):
                    inflight_trigger = True
            # tokens: every datagram of the registration carries its token by construction of `sent`
        # ended registrations got nothing with the probe state
        if probe_state is not None:
            for (dst, tok), lst in sent.items():
                for m in lst:
                    if state_of(m["payload"]) == probe_state:
                        g_alive = [g for g in regs if g["key"] == (dst, tok) and (g["t_end"] is None or g["t_end"] > PROBE_T)]
                        if not g_alive:
                            vio.append(V("C08/notification-for-ended-registration", "state %d (probe at quiescence) sent to %s tok %s although its registration(s) ended: %r" % (probe_state, dst, tok.hex(), [(g["cause"], g["t_end"]) for g in regs if g["key"] == (dst, tok)])))
        # observer count returns to the number of registrations still alive
        counts = [e[2] for e in net.events if e[1] == "obs-count"]
        final = counts[-1] if counts else 0
        n_alive = len([g for g in regs if g["t_end"] is None])
        late_timeouts = [g for g in regs if g["t_end"] is not None and g["t_end"] > END_T - 100]
        if late_timeouts:
            return Outcome([], ["excluded:time-out-near-horizon"], False)
        if final != n_alive:
            vio.append(V("C08/observer-count", "resource counts %d observers at the end, %d registrations are alive; history %r; registrations %r" % (final, n_alive, counts[-8:], [(g["key"][0][0], g["key"][1].hex(), g["cause"]) for g in regs])))
        if any(abs(b_ - a_) != 1 for a_, b_ in zip([0] + counts, counts)):
            vio.append(V("C08/observer-count-jumps", repr(counts[:12])))
        for t, msg, e, exc in net.loop_exceptions:
            vio.append(V("C08/loop-exception/" + type(exc).__name__, "%s %s at %.3f" % (msg, e, t)))
        ended_other = any(g["cause"] not in (None, "shutdown") for g in regs)
        if inflight_trigger:
            labels.add("trigger-while-in-flight")
        labels.add("regs=%d" % min(len(regs), 4))
        info = {"trace": net.trace(300)} if (want_trace or vio) else None
        return Outcome(vio, sorted(labels), bool(regs) and (inflight_trigger or ended_other), info)
    finally:
        for ep in list(net._contexts):
            try:
                net.shutdown_context(ep)
            except Exception:
                pass
        net.close()


def _is_reply(d, mid):
    try:
        f = R.decode(d["data"])
    except R.FormatError:
        return False
    return f["type"] in (R.ACK, R.RST) and f["mid"] == mid


def res_failed_at(case, t):
    return False


@st.composite
def _case(draw):
    n = draw(st.integers(2, 12))
    events = []
    nobs = draw(st.integers(1, 3))
    # at least one registration early
    events.append({"kind": "register", "t": 0.0, "observer": 0, "token": 0, "con": draw(st.booleans())})
    for _ in range(n):
        kind = draw(st.sampled_from(["bump"] * 8 + ["register"] * 3 + ["plain", "deregister", "last", "unsuccessful", "icmp"]))
        ev = {"kind": kind, "t": draw(st.sampled_from([0.0, 0.05, 0.5, 0.5, 1.0, 1.001, 1.3, 2.0, 3.0, 5.0, 8.0, 30.0, 100.0, 150.0]))}
        if kind in ("last", "unsuccessful"):
            # an explicit terminator shares its instant with no other trigger: the one-slot trigger queue is lossy by design,
            # so a same-instant state change could legitimately supersede it
            ev["t"] = round(ev["t"] + 0.0007 * (1 + len(events)), 6)
            if kind == "last" and draw(st.booleans()):
                ev["then_bump"] = draw(st.sampled_from([1, 1, 2]))
        if kind in ("register", "plain", "deregister"):
            ev["observer"] = draw(st.integers(0, nobs - 1))
            ev["token"] = draw(st.integers(0, 1))
            ev["con"] = draw(st.booleans())
        elif kind == "icmp":
            ev["observer"] = draw(st.integers(0, nobs - 1))
        elif kind == "bump":
            ev["n"] = draw(st.sampled_from([1, 1, 2, 5]))
        events.append(ev)
    reaction = st.one_of(
        st.tuples(st.just("ack"), st.sampled_from([0.0, 0.0, 0.2, 1.0, 3.0])).map(list),
        st.tuples(st.just("rst"), st.sampled_from([0.0, 0.2])).map(list),
        st.just(["silent", 0.0]),
    )
    reactions = {str(i): draw(st.lists(reaction, max_size=5)) for i in range(nobs)}
    fates = draw(st.lists(st.sampled_from([["deliver", 0.001]] * 6 + [["drop"], ["deliver", 0.3], ["dup", 0.001, 0.2]]), max_size=12))
    case = {"events": events, "reactions": reactions, "fates": fates, "rng": draw(st.integers(0, 99))}
    if draw(st.integers(0, 4)) == 0:
        case["shutdown"] = draw(st.sampled_from([0.5, 1.2, 6.0, 200.0]))
    return case


@st.composite
def _slow_case(draw):
    """renderings that take time: registrations first, then only state changes (so that the registration model stays
    trivial), many of them landing while a notification is being rendered; ends with the burst probe"""
    rdelay = draw(st.sampled_from([0.02, 0.1, 0.3]))
    nobs = draw(st.integers(1, 3))
    events = [{"kind": "register", "t": 0.0, "observer": i, "token": draw(st.integers(0, 1)), "con": draw(st.booleans())} for i in range(nobs)]
    t = 1.0
    for _ in range(draw(st.integers(1, 10))):
        t += draw(st.sampled_from([rdelay / 2, rdelay / 2, rdelay * 0.9, rdelay * 1.5, 0.5, 2.0, 3 * rdelay]))
        events.append({"kind": "bump", "t": round(t, 6), "n": draw(st.sampled_from([1, 1, 2]))})
    return {"events": events, "reactions": {}, "fates": [], "rng": draw(st.integers(0, 9)), "render_delay": rdelay}


@st.composite
def _early_end_case(draw):
    """a registration whose first rendering takes time and that is ended while that rendering is still under way: by
    another request on its token, a transport error for the observer or the shutdown of the context; state changes
    follow later.  Whatever happened to it, the resource must be told (observer count back at the number of live
    registrations) and nothing may be sent for it afterwards."""
    rdelay = draw(st.sampled_from([0.1, 0.3]))
    events = [{"kind": "register", "t": 0.0, "observer": 0, "token": 0, "con": draw(st.booleans())}]
    if draw(st.booleans()):
        events.append({"kind": "register", "t": 0.0, "observer": 1, "token": draw(st.integers(0, 1)), "con": draw(st.booleans())})
    t_in = round(rdelay * draw(st.sampled_from([0.25, 0.5, 0.9])), 6)
    ender = draw(st.sampled_from(["plain", "deregister", "register", "icmp", "shutdown", "none"]))
    case = {"reactions": {}, "fates": [], "rng": draw(st.integers(0, 9)), "render_delay": rdelay}
    if ender in ("plain", "deregister", "register"):
        events.append({"kind": ender, "t": t_in, "observer": 0, "token": 0, "con": draw(st.booleans())})
    elif ender == "icmp":
        events.append({"kind": "icmp", "t": t_in, "observer": 0})
    elif ender == "shutdown":
        case["shutdown"] = t_in
    t = 2.0
    for _ in range(draw(st.integers(0, 3))):
        t += draw(st.sampled_from([0.5, 1.0, 3.0]))
        events.append({"kind": "bump", "t": round(t, 6), "n": 1})
    case["events"] = events
    return case


def selftest():
    import aiocoap.interfaces as itf

    # break "cancellation callback in finally" by monkey-patching the resource bookkeeping
    from aiocoap import resource

    orig = resource.ObservableResource.add_observation

    async def bad(self, request, serverobservation):
        self._observations.add(serverobservation)
        serverobservation.accept(lambda: None)
        self.update_observation_count(len(self._observations))

    resource.ObservableResource.add_observation = bad
    try:
        out = run_case({"events": [{"kind": "register", "t": 0.0, "observer": 0, "token": 0, "con": True}, {"kind": "bump", "t": 0.5, "n": 1}, {"kind": "plain", "t": 1.0, "observer": 0, "token": 0, "con": True}], "reactions": {}, "fates": [], "rng": 1})
    finally:
        resource.ObservableResource.add_observation = orig
    assert out.violations, "oracle cannot fail"


RULE = (
    "scenarios: an observable counter resource on a real aiocoap server; 1-3 raw observers (two share an IP) register with CON or NON GET Observe=0 on two tokens; 2-12 further events at "
    "offsets 0-150 s: application state changes (bursts of 1-5 updated_state() calls), re-registration, a plain GET or Observe=1 on the same token, trigger(is_last=True), an unsuccessful "
    "notification, an ICMP-style error for an observer, optional context shutdown; per observer a list of reactions to CON notifications (ACK after 0-3 s, RST, silence => time-out) and "
    "datagram fates (drop/delay/dup). Oracle: a model replays the processed events in order and derives for every accepted registration its end cause and instant (RST matching a CON "
    "notification, unsuccessful / last notification, new request on the token, CON notification time-out, transport error, shutdown); per registration the Observe values on the wire strictly "
    "increase, no state that changed after the end is ever sent to it, at quiescence a probe state change reaches exactly the registrations still alive (latest state eventually sent / nothing for "
    "ended ones), the resource's observer count moves in steps of 1 and ends at the number of alive registrations, no loop exception. early_end: the first rendering of a registration takes 100/300 ms and the registration is ended while it is under way (plain GET / Observe 1 / new Observe 0 on its token, ICMP error for the observer, shutdown), state changes follow: same oracle, in particular the observer count returns to the number of live registrations. slow_render: the resource takes 20/100/300 ms to render after reading its state; 1-3 observers register, then 1-10 state changes follow at gaps of 0.5-3 rendering times (many land while a notification is being rendered) and a final burst of two changes, the second during the rendering of the first: every live registration must still get the final state. Non-trivial = a state change within 300 ms after a CON "
    "notification went out (in flight), or an end cause other than shutdown. Distinct = SHA-1 of the case."
)


def build(tier):
    return CheckSpec(
        [
            Sub("scenarios", run_case, strategy=_case, budget={"quick": 6000, "thorough": 300000}, max_wall={"quick": 55, "thorough": 3600}),
            Sub("early_end", run_case, strategy=_early_end_case, budget={"quick": 600, "thorough": 30000}, max_wall={"quick": 40, "thorough": 3600}),
            Sub("slow_render", run_case, strategy=_slow_case, budget={"quick": 1500, "thorough": 100000}, max_wall={"quick": 40, "thorough": 3600}),
        ],
        RULE,
        assumptions=[
            "OS boundary replaced by vlib.simnet",
            "a Reset in reaction to a NON notification is generated but only labelled (aiocoap documents that it cannot match it, issue 288); CON registrations are the asserted domain for Reset and time-out",
            "a notification rendered before the end but still queued behind NSTART may be transmitted after the end; only states that changed after the end count as 'further notification'",
        ],
        selftest=selftest,
    )
