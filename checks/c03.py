"""C03 -- CON retransmission schedule on the simulated wire (virtual clock)."""

from hypothesis import strategies as st

from vlib import refcodec as R
from vlib.runner import CheckSpec, Outcome, Sub, V
from vlib.simnet import SimNet

ID = "C03"
LEVEL = "fault_enumeration"

CLIENT = ("fd00::1", 5683)
KINDS = ["ack", "ack_piggy", "rst", "ack_wrongmid", "rst_wrongmid", "ack_othersrc", "rst_othersrc", "ack_otherport", "ack_piggy_wrongtoken"]
STOPPING = {"ack", "ack_piggy", "rst", "ack_piggy_wrongtoken"}


def make_tuning(t):
    from aiocoap.numbers.constants import TransportTuning

    class T(TransportTuning):
        ACK_TIMEOUT = t["at"]
        ACK_RANDOM_FACTOR = t["arf"]
        MAX_RETRANSMIT = t["mr"]

    return T()


def run_case(case, want_trace=False):
    from aiocoap import GET, Message, error

    tun = case["tuning"]
    AT, ARF, MR = tun["at"], tun["arf"], tun["mr"]
    net = SimNet(fates=case.get("fates", ()), rng_seed=case.get("rng", 0), mid0=case.get("mid0"))
    vio = []
    labels = []
    try:
        client = net.add_context("client", *CLIENT)
        arrivals = {"n": 0}
        plan = case.get("plan", [])
        state = {"last_arrival": None, "gap": AT}

        def handler(peer, t, src, f, raw):
            if f is None or f["type"] != R.CON or f["code"] == 0:
                return
            k = arrivals["n"]
            arrivals["n"] += 1
            if state["last_arrival"] is not None and k >= 1:
                state["gap"] = (t - state["last_arrival"]) * 2
            state["last_arrival"] = t
            for p in plan:
                if p["copy"] != k:
                    continue
                delay = p.get("delay", 0.0) + p.get("frac", 0.0) * state["gap"]
                kind = p["kind"]
                mid = f["mid"]
                if "wrongmid" in kind:
                    mid = (mid + 1 + p.get("midoff", 0)) & 0xFFFF
                if kind.startswith("rst"):
                    data = R.msg(R.RST, 0, mid)
                elif kind == "ack_piggy":
                    data = R.msg(R.ACK, R.CONTENT, mid, f["token"], payload=b"ok")
                elif kind == "ack_piggy_wrongtoken":
                    # acknowledges the message like any ACK with its ID; the response inside belongs to nobody
                    data = R.msg(R.ACK, R.CONTENT, mid, bytes(f["token"]) + b"\x99", payload=b"ok")
                else:
                    data = R.msg(R.ACK, 0, mid)
                if kind.endswith("othersrc"):
                    net.loop.call_later(delay, net.inject, ("fd00::66", 5683), src, data, 0.001)
                elif kind.endswith("otherport"):
                    net.loop.call_later(delay, net.inject, (peer.ip, 6000), src, data, 0.001)
                else:
                    peer.send(src, data, delay)

        server = net.add_raw("server", "fd00::2", handler=handler)
        other = net.add_raw("other", "fd00::3", handler=lambda peer, t, src, f, raw: f and f["type"] == R.CON and peer.send(src, R.msg(R.ACK, R.CONTENT, f["mid"], f["token"], payload=b"n")))

        done = {}

        def start():
            m = Message(code=GET, transport_tuning=make_tuning(tun))
            m.opt.uri_path = ("x",)
            m.remote = client.remote(server)
            req = client.ctx.request(m, handle_blockwise=False)
            done["t0"] = net.loop.time()
            done["req"] = req
            req.response.add_done_callback(lambda fut: done.setdefault("t_done", net.loop.time()))

        def start_noise():
            m = Message(code=GET)
            m.remote = client.remote(other)
            req = client.ctx.request(m, handle_blockwise=False)
            done["noise"] = req

        t_start = 1.0
        # traffic of the same peer shortly before: its messages live in another message-ID space, so even one that
        # happens to carry the ID our CON is about to get must not influence the exchange
        for pi, pre in enumerate(case.get("prelude", [])):
            pmid = (case.get("mid0", 0) if pre["mid"] == "same" else (case.get("mid0", 0) + 77)) & 0xFFFF
            if pre["kind"] == "ping":
                pdata = R.msg(R.CON, 0, pmid)
            elif pre["kind"] == "stray_ack":
                pdata = R.msg(R.ACK, 0, pmid)
            elif pre["kind"] == "stray_rst":
                pdata = R.msg(R.RST, 0, pmid)
            elif pre["kind"] == "non_request":
                pdata = R.msg(R.NON, R.GET, pmid, b"\x77", [(R.O_URI_PATH, "nowhere")])
            else:
                pdata = R.msg(R.CON, R.GET, pmid, b"\x77", [(R.O_URI_PATH, "nowhere")])
            net.at(t_start - pre["dt"], server.send, CLIENT, pdata)
            labels.append("prelude:" + pre["kind"] + ":" + pre["mid"])
        net.at(t_start, start)
        if case.get("noise") is not None:
            net.at(t_start + case["noise"], start_noise)
        if case.get("other_error") is not None:
            # a transport error reported for *another* endpoint must leave this exchange's schedule alone
            net.at(t_start + case["other_error"], net.inject_error, client, other.addr)
            labels.append("error-for-other-endpoint")
        max_wait = AT * ARF * (2 ** (MR + 1) - 1)
        net.run_until(t_start + max_wait + AT * ARF * 2 + 300)

        # ---------------- oracle (pure function of the trace) ----------------
        wire = net.wire_fields()
        mine = [w for w in wire if w["src"] == CLIENT and w["dst"] == server.addr and w["fields"] and w["fields"]["type"] == R.CON]
        if not mine:
            return Outcome([V("C03/no-transmission", "the request never appeared on the wire")], ["none"], False)
        mid = mine[0]["fields"]["mid"]
        copies = [w for w in mine if w["fields"]["mid"] == mid]
        t0 = copies[0]["t"]
        if any(c["data"] != copies[0]["data"] for c in copies):
            vio.append(V("C03/copies-differ", "retransmitted copies are not byte-identical"))
        if len(copies) > 1 + MR:
            vio.append(V("C03/too-many-copies", "%d copies with MAX_RETRANSMIT=%d" % (len(copies), MR)))
        gaps = [b["t"] - a["t"] for a, b in zip(copies, copies[1:])]
        if gaps:
            if not (AT - 1e-6 <= gaps[0] <= AT * ARF + 1e-6):
                vio.append(V("C03/first-gap-out-of-range", "first gap %.6f not in [%.6f, %.6f]" % (gaps[0], AT, AT * ARF)))
            for i in range(1, len(gaps)):
                if abs(gaps[i] - 2 * gaps[i - 1]) > 1e-6 * max(1.0, gaps[i]):
                    vio.append(V("C03/gap-not-doubled", "gap %d is %.6f after %.6f" % (i, gaps[i], gaps[i - 1])))
                    break
        # stop event: first delivery to the client of ACK/RST with that MID from the server's address
        stop = None
        for d in net.deliveries:
            if d["to"] != "client" or d["src"] != server.addr or d["t"] < t0:
                continue  # (what arrived before the CON was first sent cannot acknowledge it)
            try:
                f = R.decode(d["data"])
            except R.FormatError:
                continue
            if f["type"] in (R.ACK, R.RST) and f["mid"] == mid:
                stop = (d["t"], f)
                break
        # a reply that arrives only after the exchange has been given up is no stop event
        fut = done["req"].response
        t_giveup = None
        if len(copies) == 1 + MR:
            if gaps:
                t_giveup = t0 + gaps[0] * (2 ** (MR + 1) - 1)
            elif fut.done() and not fut.cancelled() and isinstance(fut.exception(), error.TimeoutError):
                t_giveup = done.get("t_done")
        if stop is not None and t_giveup is not None:
            if abs(stop[0] - t_giveup) <= 1e-6:
                return Outcome([], ["reply-exactly-at-give-up"], False)
            if stop[0] > t_giveup:
                labels.append("reply-after-give-up")
                stop = None
        if stop is not None:
            late = [c for c in copies if c["t"] > stop[0] + 1e-9]
            if late:
                vio.append(V("C03/copy-after-ack-or-rst", "%s with the MID arrived at %.6f, copy sent at %.6f" % (["CON", "NON", "ACK", "RST"][stop[1]["type"]], stop[0], late[0]["t"])))
        # completeness of the schedule: every transmission scheduled strictly before the stop event must have happened
        if gaps:
            g1 = gaps[0]
        else:
            g1 = None
        expect_n = None
        if g1 is not None or stop is None:
            # reconstruct the schedule from the first observed gap
            if g1 is not None:
                sched = [t0 + g1 * (2**i - 1) for i in range(MR + 1)]
                limit = stop[0] if stop is not None else float("inf")
                expect_n = len([s for s in sched if s < limit - 1e-6])
                ambiguous = any(abs(s - limit) <= 1e-6 for s in sched)
                if not ambiguous and len(copies) < expect_n:
                    vio.append(V("C03/retransmission-missing", "%d copies, schedule demands %d before %s" % (len(copies), expect_n, "the stop event" if stop else "giving up")))
        if stop is None:
            if MR >= 1 and len(copies) != 1 + MR:
                vio.append(V("C03/wrong-copy-count-without-reply", "%d copies, expected %d" % (len(copies), 1 + MR)))
            if not fut.done():
                vio.append(V("C03/hangs-without-reply", "request still pending %.1f s after first transmission" % (net.loop.time() - t0)))
            else:
                exc = fut.exception() if not fut.cancelled() else None
                if exc is None:
                    vio.append(V("C03/result-without-reply", "request completed with a result although nothing was ever delivered"))
                else:
                    if not isinstance(exc, error.TimeoutError) or not isinstance(exc, error.NetworkError):
                        vio.append(V("C03/wrong-timeout-error/" + type(exc).__name__, repr(exc)))
                    if g1 is not None:
                        want = t0 + g1 * (2 ** (MR + 1) - 1)
                    else:
                        want = None
                    t_done = done.get("t_done")
                    if want is not None and abs(t_done - want) > 1e-6 * max(1.0, want):
                        vio.append(V("C03/timeout-at-wrong-time", "failed at %.6f, expected %.6f" % (t_done, want)))
                    if MR == 0 and not (t0 + AT - 1e-6 <= t_done <= t0 + AT * ARF + 1e-6):
                        vio.append(V("C03/timeout-at-wrong-time", "MAX_RETRANSMIT=0: failed at %.6f" % t_done))
                    if t_done > t0 + max_wait + 1e-6:
                        vio.append(V("C03/timeout-after-max-transmit-wait", "%.6f > %.6f" % (t_done - t0, max_wait)))
        else:
            if stop[1]["type"] == R.RST:
                if not fut.done():
                    vio.append(V("C03/rst-does-not-fail-request", "pending after RST"))
                elif fut.cancelled() or not isinstance(fut.exception(), error.Error):
                    vio.append(V("C03/rst-wrong-outcome", repr(fut)))
                elif abs(done["t_done"] - stop[0]) > 1e-6:
                    vio.append(V("C03/rst-fails-late", "RST at %.6f, failure at %.6f" % (stop[0], done["t_done"])))
            elif stop[1]["code"] != 0 and stop[1]["token"] == copies[0]["fields"]["token"]:
                if not fut.done() or fut.cancelled() or fut.exception() is not None:
                    vio.append(V("C03/piggyback-not-delivered", repr(fut)))
            else:
                # after an empty ACK only a response carrying the token (from the peer) may complete the request
                token = copies[0]["fields"]["token"]
                resp = []
                for d in net.deliveries:
                    if d["to"] == "client" and d["src"] == server.addr:
                        try:
                            f = R.decode(d["data"])
                        except R.FormatError:
                            continue
                        if f["code"] != 0 and f["token"] == token:
                            resp.append(d["t"])
                if fut.done() and (fut.cancelled() or fut.exception() is not None):
                    vio.append(V("C03/acked-request-fails", repr(fut)))
                elif fut.done() and not resp:
                    vio.append(V("C03/empty-ack-completes-request", repr(fut)))
                elif not fut.done() and resp:
                    vio.append(V("C03/response-after-ack-not-delivered", repr(fut)))
        if "noise" in done:
            nf = done["noise"].response
            # the neighbour shares the fate list, so it may time out; it must end in a result or a library error
            if not nf.done() or nf.cancelled() or (nf.exception() is not None and not isinstance(nf.exception(), error.Error)):
                vio.append(V("C03/other-exchange-disturbed", repr(nf)))
        if net.loop_exceptions:
            vio.append(V("C03/loop-exception", str(net.loop_exceptions[0][:3])))
        labels.append("copies=%d" % len(copies))
        labels.append("stop=%s" % ("none" if stop is None else ["", "", "ack", "rst"][stop[1]["type"]]))
        for p in plan:
            if p["kind"] not in STOPPING:
                labels.append("decoy:" + p["kind"])
        info = {"trace": net.trace()} if want_trace or vio else None
        return Outcome(vio, labels, len(copies) >= 2, info)
    finally:
        for ep in list(net._contexts):
            try:
                net.shutdown_context(ep)
            except Exception:
                pass
        net.close()


# --------------------------------------------------------------------------------------

TUNINGS = [
    {"at": 2.0, "arf": 1.5, "mr": 4},
    {"at": 2.0, "arf": 1.0, "mr": 4},
    {"at": 0.05, "arf": 1.0, "mr": 6},
    {"at": 8.0, "arf": 3.0, "mr": 1},
    {"at": 0.5, "arf": 2.0, "mr": 0},
    {"at": 1.0, "arf": 1.0, "mr": 2},
]


def cases_grid():
    for kind in ("ping", "stray_ack", "stray_rst", "request", "non_request"):
        for mid in ("same", "other"):
            for reply in ("ack", "rst", "ack_piggy"):
                yield {"tuning": TUNINGS[1], "rng": 5, "mid0": 0x4321, "prelude": [{"kind": kind, "mid": mid, "dt": 0.3}], "plan": [{"copy": 1, "kind": reply, "frac": 0.0}]}
    for ti, tun in enumerate(TUNINGS):
        for k in [None] + list(range(tun["mr"] + 1)):
            if k is None:
                yield {"tuning": tun, "rng": ti, "plan": []}
                yield {"tuning": tun, "rng": ti + 10, "plan": [], "fates": [["drop"]] * 12}
                continue
            for kind in ["ack", "rst", "ack_wrongmid", "ack_othersrc", "ack_piggy", "rst_wrongmid", "rst_othersrc", "ack_otherport", "ack_piggy_wrongtoken"]:
                for frac in (0.0, 0.9, 1.1):
                    for lost in (False, True):
                        if lost and kind not in STOPPING:
                            continue
                        fates = []
                        if lost:
                            # copies 0..k delivered, then the reply is dropped
                            fates = [["deliver", 0.001]] * (k + 1) + [["drop"]]
                        yield {"tuning": tun, "rng": ti * 100 + k, "plan": [{"copy": k, "kind": kind, "frac": frac}], "fates": fates}


@st.composite
def _random_case(draw):
    from vlib.simnet import fate_strategy

    tun = {
        "at": draw(st.one_of(st.sampled_from([0.05, 0.5, 2.0, 8.0]), st.floats(0.05, 8.0).map(lambda x: round(x, 3)))),
        "arf": draw(st.one_of(st.sampled_from([1.0, 1.5, 3.0]), st.floats(1.0, 3.0).map(lambda x: round(x, 3)))),
        "mr": draw(st.integers(0, 6)),
    }
    nplan = draw(st.integers(0, 4))
    plan = []
    for _ in range(nplan):
        p = {"copy": draw(st.integers(0, tun["mr"])), "kind": draw(st.sampled_from(KINDS))}
        if draw(st.booleans()):
            p["frac"] = draw(st.sampled_from([0.0, 0.25, 0.5, 0.9, 0.999, 1.0, 1.001, 1.1, 1.5, 3.5]))
        else:
            p["delay"] = draw(st.sampled_from([0.0, 0.001, 0.05, 1.0, 2.5, 10.0, 50.0]))
        plan.append(p)
    fates = draw(st.lists(fate_strategy(delays=[0.001, 0.05, 0.15, 1.0, 2.5, 10.0]), max_size=10))
    case = {"tuning": tun, "rng": draw(st.integers(0, 2**16)), "plan": plan, "fates": fates}
    if draw(st.booleans()):
        case["noise"] = draw(st.sampled_from([0.0, 0.01, 1.0, 3.0]))
    if draw(st.integers(0, 3)) == 0:
        case["mid0"] = draw(st.sampled_from([0, 0xFFFF, 0xFFFE, 1]))
    if draw(st.integers(0, 3)) == 0:
        case["other_error"] = draw(st.sampled_from([0.0005, 0.04, 0.4, 1.0, 3.0]))
    if draw(st.integers(0, 2)) == 0:
        case.setdefault("mid0", draw(st.sampled_from([0x1234, 0xFFFF, 0])))
        case["prelude"] = draw(st.lists(st.fixed_dictionaries({"kind": st.sampled_from(["ping", "stray_ack", "stray_rst", "request", "non_request"]), "mid": st.sampled_from(["same", "same", "other"]), "dt": st.sampled_from([0.5, 0.2, 0.01])}), min_size=1, max_size=2))
    return case


def selftest():
    # clean trace must pass; an oracle that cannot fail is useless: break the property in the trace by
    # lying about the tuning (observed schedule then contradicts the claimed parameters)
    # (selftests never assert that the code under test is right -- that is the check's job)
    import aiocoap.messagemanager as mm

    orig = mm.MessageManager._retransmit

    def bad(self, message, timeout, counter):
        return orig(self, message, timeout * 1.5, counter)

    mm.MessageManager._retransmit = bad
    try:
        out = run_case({"tuning": {"at": 1.0, "arf": 1.0, "mr": 3}, "rng": 1, "plan": []})
    finally:
        mm.MessageManager._retransmit = orig
    assert out.violations, "oracle cannot fail"


RULE = (
    "One CON request from a real aiocoap context to a scripted raw peer on the simulated net (virtual clock); "
    "generated: TransportTuning (ACK_TIMEOUT 0.05-8, ACK_RANDOM_FACTOR 1-3, MAX_RETRANSMIT 0-6), per-arrival reply plan "
    "(ACK / piggybacked ACK / piggybacked ACK with a foreign token / RST / ACK or RST with another MID / from another address or port; delays absolute or as a "
    "fraction of the current gap so that replies land just before/after a retransmission), per-datagram fates (drop/delay/dup), "
    "a concurrent exchange with another peer, initial MID, and earlier traffic of the same peer (ping, stray ACK/RST, CON/NON request) carrying the very message ID the CON is about to get. Oracle from wire timestamps: byte-identical copies, <= 1+MAX_RETRANSMIT, "
    "first gap in [AT, AT*ARF], later gaps exactly doubled, no copy after arrival of same-MID ACK/RST from the peer, every scheduled "
    "copy before that is present (decoys change nothing), RST fails the request at once, no reply => TimeoutError/NetworkError exactly "
    "one doubled interval after the last copy and <= MAX_TRANSMIT_WAIT. grid = full enumeration of 6 tunings x reply-at-copy k x 8 kinds x "
    "3 delay positions x reply lost or not. Non-trivial = at least one retransmission occurred; distinct = SHA-1 of the case."
)


def build(tier):
    return CheckSpec(
        [
            Sub("grid", run_case, cases=cases_grid, exhaustive=True, note="finite grid of DESIGN.md C03"),
            Sub("random", run_case, strategy=_random_case, budget={"quick": 5000, "thorough": 300000}, max_wall={"quick": 50, "thorough": 3600}),
        ],
        RULE,
        assumptions=[
            "the OS boundary is replaced by vlib.simnet (FakeDatagramTransport / datagram_msg_received); everything above is the shipped code",
            "nothing is asserted about retransmissions after a *response* arrived without an ACK (the statement speaks of ACK/RST)",
        ],
        selftest=selftest,
    )
