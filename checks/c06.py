"""C06 -- block-wise server: Block1 reassembly, Block2 slicing and state lifetime, against a reference model."""

from hypothesis import strategies as st

from vlib import refcodec as R
from vlib.runner import CheckSpec, Outcome, Sub, V
from vlib.simnet import SimNet

ID = "C06"
LEVEL = "exploration"

A = ("fd00::1", 5683)
CLIENTS = [("fd00::2", 5683), ("fd00::3", 5683), ("fd00::2", 6006)]
RESOURCES = [["r1"], ["r2"], ["nested", "r"]]
METHODS = {"PUT": 3, "POST": 2, "FETCH": 5, "GET": 1}
T = 93.0  # MAX_TRANSMIT_WAIT of the default tuning
IDLES = [0.0, 0.0, 0.0, 1.0, 50.0, 92.0, 94.0, 150.0, 185.0, 187.0, 400.0]
RENDER_LENS = [0, 10, 16, 17, 64, 1124, 1125, 2048, 3000]


def bsize(szx):
    return 2 ** (szx + 4)


def make_site(net, case):
    import aiocoap
    from aiocoap import resource

    serial = [0]

    class Res(resource.Resource):
        def __init__(self, name):
            super().__init__()
            self.name = name

        async def _go(self, request):
            serial[0] += 1
            n = serial[0]
            length = case["render_lens"][(n - 1) % len(case["render_lens"])]
            head = b"R%d:" % n
            payload = (head + bytes((i * 13 + n) % 251 for i in range(length)))[: max(length, 0)] if length >= len(head) else head[:length]
            net.events.append((net.loop.time(), "handler", self.name, tuple(request.remote.sockaddr[:2]), int(request.code), tuple(request.opt.uri_query), bytes(request.payload), payload))
            return aiocoap.Message(code=aiocoap.numbers.codes.Code(R.CONTENT), payload=payload)

        render_get = render_put = render_post = render_fetch = _go

    site = resource.Site()
    site.add_resource(["r1"], Res("r1"))
    site.add_resource(["r2"], Res("r2"))
    sub = resource.Site()
    sub.add_resource(["r"], Res("nested/r"))
    site.add_resource(["nested"], sub)
    return site


class Model:
    """reference model keyed like the statement: endpoint x method x cache-key options (path, query)"""

    def __init__(self):
        self.assembly = {}  # key -> dict(body, last)
        self.cache = {}  # key -> dict(body, last)
        self.latest = {}  # key -> latest rendering (cached or not)

    @staticmethod
    def zone(entry, now):
        if entry is None:
            return "absent"
        idle = now - entry["last"]
        if idle < T - 0.5:
            return "present"
        if idle > 2 * T + 0.5:
            return "absent"
        return "either"


def run_case(case, want_trace=False):
    net = SimNet(rng_seed=case.get("rng", 0))
    net._logger.setLevel(100)
    vio = []
    labels = set()
    try:
        a = net.add_context("A", *A, site=make_site(net, case))
        responses = {}

        def handler(peer, t, src, f, raw):
            if f is not None and f["code"] != 0:
                responses[f["token"]] = f

        clients = [net.add_raw("c%d" % i, ip, port, handler=handler) for i, (ip, port) in enumerate(CLIENTS)]
        model = Model()
        last_num = {}
        out_of_seq = False
        long_idle = False
        interleaved = False
        last_client_on_key = {}
        now = 1.0
        net.run_until(now)
        for si, st_ in enumerate(case["steps"]):
            now = net.loop.time() + st_["idle"]
            if st_["idle"] >= 92:
                long_idle = True
            net.run_until(now)
            now = net.loop.time()
            ci = st_["client"]
            res = RESOURCES[st_["res"]]
            query = st_["query"]
            method = METHODS[st_["method"]]
            key = (CLIENTS[ci], method, tuple(res), query)
            shared = (method, tuple(res), query)
            if shared in last_client_on_key and last_client_on_key[shared] != ci:
                interleaved = True
            last_client_on_key[shared] = ci
            opts = [(R.O_URI_PATH, p) for p in res]
            for q in query.split("&") if query else ():
                opts.append((R.O_URI_QUERY, q))  # (several entries: all of them are part of the cache key)
            token = bytes([0x90 + ci, si])
            handler_before = len([e for e in net.events if e[1] == "handler"])
            kind = st_["kind"]
            szx = st_["szx"]
            size = bsize(szx)
            asm = model.assembly.get(key)
            # ---------------------------------------------------------------- build the request
            if kind == "block2":
                num = st_["num"]
                opts.append((R.O_BLOCK2, (num, False, szx)))
                payload = b""
                b1 = None
                b2 = (num, False, szx)
            else:
                b2 = None
                if kind == "plain":
                    b1 = None
                    payload = bytes((si * 31 + i) % 256 for i in range(st_["plen"]))
                else:
                    rel = st_["rel"]
                    nxt = (len(asm["body"]) // size) if (asm is not None and len(asm["body"]) % size == 0) else None
                    if rel == "restart":
                        num = 0
                    elif rel == "steal":
                        # continue the assembly of a *different* key (other client, method or query) on the same resource
                        num = 1
                        for k2, a2 in model.assembly.items():
                            if k2 != key and k2[2] == key[2] and len(a2["body"]) % size == 0 and a2["body"]:
                                num = len(a2["body"]) // size
                                break
                    elif rel == "repeat":
                        num = last_num.get(key, 1)
                    elif rel == "absolute":
                        num = st_.get("num", 1)
                    elif nxt is None:
                        num = {"next": 0, "skip": 3, "earlier": 1}[rel]
                    elif rel == "next":
                        num = nxt
                    elif rel == "skip":
                        num = nxt + 1
                    else:  # earlier
                        num = max(nxt - 1, 1)
                    more = not st_["final"]
                    plen = size if more else st_["plen"] % (size + 1)
                    if more and num > 0 and st_["lenkind"] == "short":
                        plen = size - 1
                    elif more and num > 0 and st_["lenkind"] == "long":
                        plen = size + 1
                    elif more and num > 0 and st_["lenkind"] in ("empty", "half", "double", "triple"):
                        plen = {"empty": 0, "half": size // 2, "double": 2 * size, "triple": 3 * size}[st_["lenkind"]]
                    payload = bytes((si * 17 + num * 5 + i) % 256 for i in range(plen))
                    b1 = (num, more, szx)
                    opts.append((R.O_BLOCK1, b1))
                    last_num[key] = num
                if st_.get("b2szx") is not None:
                    b2 = (0, False, st_["b2szx"])
                    opts.append((R.O_BLOCK2, b2))
            clients[ci].send(A, R.msg(R.CON, method, 0x8000 + si, token, opts, payload))
            net.run_until(now + 0.5)
            resp = responses.get(token)
            invoked = [e for e in net.events if e[1] == "handler"][handler_before:]
            tnow = now + 0.001
            if resp is None:
                vio.append(V("C06/no-response", "step %d %r" % (si, st_)))
                break
            code = resp["code"]
            cls = code >> 5
            desc = "step %d %r -> %s" % (si, st_, R.describe(resp))
            if cls == 5:
                vio.append(V("C06/5.xx/%s" % ("block2" if kind == "block2" else "block1-" + st_.get("rel", kind)), desc))
                break

            def check_rendering_response(rendering, req_b1, req_b2):
                """response to a complete action: the whole rendering, or its first slice at the size the response states"""
                got_b2 = R.opt(resp, R.O_BLOCK2)
                if got_b2 is not None:
                    sz = bsize(got_b2[2])
                    want = rendering[:sz]
                    if got_b2[0] != 0 or got_b2[1] != (len(rendering) > sz) or resp["payload"] != want:
                        vio.append(V("C06/first-block2-slice-wrong", "%s; rendering %d bytes, expected Block2 (0,%s,%d) with %d bytes" % (desc, len(rendering), len(rendering) > sz, got_b2[2], len(want))))
                    if req_b2 is not None and got_b2[2] > req_b2[2]:
                        vio.append(V("C06/block2-size-larger-than-requested", desc))
                    model.cache[key] = {"body": rendering, "last": tnow}
                else:
                    if resp["payload"] != rendering:
                        vio.append(V("C06/response-not-the-rendering", "%s; rendering has %d bytes" % (desc, len(rendering))))
                model.latest[key] = {"body": rendering, "cached": got_b2 is not None}
                if req_b1 is not None and R.opt(resp, R.O_BLOCK1) != req_b1:
                    vio.append(V("C06/final-block1-not-echoed", desc))

            def expect_handler(body):
                if len(invoked) != 1:
                    vio.append(V("C06/handler-invocations", "%s: handler ran %d times, expected once with %d bytes" % (desc, len(invoked), len(body))))
                    return None
                e = invoked[0]
                if e[6] != body or e[3] != CLIENTS[ci] or e[4] != method or e[5] != (tuple(query.split("&")) if query else ()):
                    vio.append(V("C06/handler-got-wrong-body", "%s: handler saw %d bytes from %s method %d query %r; model body %d bytes" % (desc, len(e[6]), e[3], e[4], e[5], len(body))))
                return e[7]

            def expect_no_handler():
                if invoked:
                    vio.append(V("C06/handler-invoked-for-incomplete-or-rejected-request", desc))

            # ---------------------------------------------------------------- judge
            if kind == "block2" and b2[0] > 0:
                out_of_seq = out_of_seq or False
                expect_no_handler()
                ent = model.cache.get(key)
                z = Model.zone(ent, tnow)
                lat = model.latest.get(key)
                stale = ent is not None and lat is not None and not lat["cached"]
                offset = b2[0] * size
                if z == "absent":
                    if code != R.REQUEST_ENTITY_INCOMPLETE:
                        vio.append(V("C06/block2-without-rendering-not-4.08", desc))
                    model.cache.pop(key, None)
                else:
                    acceptable_absent = z == "either" and code == R.REQUEST_ENTITY_INCOMPLETE
                    if acceptable_absent:
                        model.cache.pop(key, None)
                        labels.add("expiry-zone-either:gone")
                    elif stale:
                        labels.add("stale-cache(informational)")
                        if code == R.CONTENT:
                            ent["last"] = tnow
                    else:
                        body = ent["body"]
                        ent["last"] = tnow
                        if offset >= len(body):
                            if code != R.BAD_REQUEST:
                                vio.append(V("C06/block2-beyond-end-not-4.00", desc + " (rendering %d bytes)" % len(body)))
                        else:
                            want = body[offset : offset + size]
                            got_b2 = R.opt(resp, R.O_BLOCK2)
                            if code != R.CONTENT or got_b2 != (b2[0], offset + size < len(body), szx) or resp["payload"] != want:
                                vio.append(V("C06/block2-slice-wrong", "%s; expected Block2 (%d,%s,%d) and %d bytes [%d:%d] of the rendering made for the latest block-0 request" % (desc, b2[0], offset + size < len(body), szx, len(want), offset, offset + size)))
                        if z == "either":
                            labels.add("expiry-zone-either:alive")
                continue
            if kind == "plain" or (kind == "block2" and b2[0] == 0):
                rendering = expect_handler(payload)
                if rendering is not None:
                    check_rendering_response(rendering, None, b2)
                continue
            # Block1 steps
            num, more, _ = b1
            if num == 0:
                model.assembly[key] = {"body": payload, "last": tnow}
                if more:
                    expect_no_handler()
                    if code != R.CONTINUE or R.opt(resp, R.O_BLOCK1) != b1:
                        vio.append(V("C06/intermediate-block-not-2.31-echo", desc))
                else:
                    rendering = expect_handler(payload)
                    if rendering is not None:
                        check_rendering_response(rendering, b1, b2)
                continue
            # a continuation
            z = Model.zone(asm, tnow)
            offset = num * size
            if z == "absent":
                expect_no_handler()
                if code != R.REQUEST_ENTITY_INCOMPLETE and not (more and len(payload) != size and code == R.BAD_REQUEST):
                    vio.append(V("C06/continuation-without-assembly-not-4.08", desc))
                out_of_seq = True
                model.assembly.pop(key, None)
                continue
            length_wrong = more and len(payload) != size
            extends = offset == len(asm["body"])
            if z == "either" and code == R.REQUEST_ENTITY_INCOMPLETE:
                expect_no_handler()
                model.assembly.pop(key, None)
                labels.add("expiry-zone-either:gone")
                continue
            if z == "either":
                labels.add("expiry-zone-either:alive")
            if length_wrong:
                out_of_seq = True
                expect_no_handler()
                ok = code == R.BAD_REQUEST or (not extends and code == R.REQUEST_ENTITY_INCOMPLETE)
                if not ok:
                    vio.append(V("C06/length-contradiction-not-4.00", desc))
                asm["last"] = tnow
                continue
            if not extends:
                out_of_seq = True
                expect_no_handler()
                if code != R.REQUEST_ENTITY_INCOMPLETE:
                    vio.append(V("C06/gap-or-overlap-not-4.08", "%s; assembly has %d bytes, block starts at %d" % (desc, len(asm["body"]), offset)))
                asm["last"] = tnow
                continue
            asm["body"] = asm["body"] + payload
            asm["last"] = tnow
            if more:
                expect_no_handler()
                if code != R.CONTINUE or R.opt(resp, R.O_BLOCK1) != b1:
                    vio.append(V("C06/intermediate-block-not-2.31-echo", desc))
            else:
                rendering = expect_handler(asm["body"])
                if rendering is not None:
                    check_rendering_response(rendering, b1, b2)
        for t, msg, e, exc in net.loop_exceptions:
            vio.append(V("C06/loop-exception/" + type(exc).__name__, "%s %s" % (msg, e)))
        if out_of_seq:
            labels.add("out-of-sequence")
        if long_idle:
            labels.add("idle>=92s")
        if interleaved:
            labels.add("clients-interleaved-on-one-key")
        info = {"trace": net.trace(150)} if (want_trace or vio) else None
        return Outcome(vio, sorted(labels), out_of_seq or long_idle or interleaved or len(case["steps"]) == 2 and case["steps"][1]["kind"] == "block2" or case.get("render_lens") == [3000], info)
    finally:
        for ep in list(net._contexts):
            try:
                net.shutdown_context(ep)
            except Exception:
                pass
        net.close()


@st.composite
def _step(draw):
    kind = draw(st.sampled_from(["block1"] * 7 + ["plain", "block2", "block2"]))
    stp = {
        "kind": kind,
        "client": draw(st.sampled_from([0, 0, 0, 1, 2])),
        "res": draw(st.sampled_from([0, 0, 0, 1, 2])),
        "query": draw(st.sampled_from(["", "", "k=1", "a=1&k=1", "a=2&k=1", "a=1&k=1", "a=2&k=1"])),
        "method": draw(st.sampled_from(["PUT", "PUT", "PUT", "POST", "FETCH", "GET"])),
        "szx": draw(st.sampled_from([0, 0, 0, 1, 2, 6])),
        "idle": draw(st.sampled_from(IDLES)),
    }
    if kind == "block1":
        stp["rel"] = draw(st.sampled_from(["next"] * 8 + ["restart", "restart", "repeat", "skip", "earlier", "absolute", "steal", "steal"]))
        stp["final"] = draw(st.sampled_from([False, False, True]))
        stp["plen"] = draw(st.integers(0, 1100))
        stp["lenkind"] = draw(st.sampled_from(["exact"] * 9 + ["short", "long", "empty", "half", "double", "triple"]))
        stp["num"] = draw(st.integers(1, 5))
        if draw(st.integers(0, 3)) == 0:
            stp["b2szx"] = draw(st.sampled_from([0, 2, 6]))
    elif kind == "plain":
        stp["plen"] = draw(st.sampled_from([0, 5, 100]))
        if draw(st.integers(0, 2)) == 0:
            stp["b2szx"] = draw(st.sampled_from([0, 2, 6]))
    else:
        stp["num"] = draw(st.one_of(st.integers(0, 4), st.sampled_from([1, 2, 3, 70, 200])))
    return stp


@st.composite
def _case(draw):
    steps = draw(st.lists(_step(), min_size=1, max_size=25))
    return {"steps": steps, "render_lens": draw(st.lists(st.sampled_from(RENDER_LENS), min_size=1, max_size=4)), "rng": draw(st.integers(0, 9))}


def cases_block2_grid():
    """finite grid: rendering length x size of the first request x (block number, size) of the follow-up"""
    for length in [0, 10, 15, 16, 17, 31, 32, 33, 64, 100, 1024, 1124, 1125, 2048]:
        for a in [None, 0, 1, 2, 4, 6]:
            for b in [0, 1, 2, 4, 6]:
                for num in [1, 2, 3, 64, 129]:
                    first = {"client": 0, "res": 0, "query": "", "method": "GET", "szx": a if a is not None else 0, "idle": 0.0}
                    first.update({"kind": "block2", "num": 0} if a is not None else {"kind": "plain", "plen": 0})
                    yield {"steps": [first, {"client": 0, "res": 0, "query": "", "method": "GET", "szx": b, "idle": 0.0, "kind": "block2", "num": num}], "render_lens": [length], "rng": 0}


def cases_slow_transfers():
    """finite grid: a transfer of n blocks with a constant gap between blocks (every gap below MAX_TRANSMIT_WAIT, the whole
    transfer possibly much longer), optionally with a second client's abandoned transfer on the same resource"""
    for nblocks in (2, 3, 4, 5, 6):
        for gap in (1.0, 50.0, 60.0, 92.0):
            for other in (False, True):
                for szx in (0, 2):
                    steps = []
                    if other:
                        steps.append({"kind": "block1", "client": 1, "res": 0, "query": "", "method": "PUT", "szx": szx, "idle": 0.0, "rel": "restart", "final": False, "plen": 3, "lenkind": "exact", "num": 1})
                    for b in range(nblocks):
                        steps.append({"kind": "block1", "client": 0, "res": 0, "query": "", "method": "PUT", "szx": szx, "idle": gap if b else 0.0, "rel": "next" if b else "restart", "final": b == nblocks - 1, "plen": 7, "lenkind": "exact", "num": 1})
                    # and read a large rendering back equally slowly
                    for b in range(1, 4):
                        steps.append({"kind": "block2", "client": 0, "res": 0, "query": "", "method": "PUT", "szx": 6, "idle": gap, "num": b})
                    yield {"steps": steps, "render_lens": [3000], "rng": 0}


def cases_key_pairs():
    """finite grid: two transfers of one endpoint on one resource whose keys differ in exactly one respect (one entry of
    the query list, their order, the method, the resource), blocks interleaved ABAB / ABBA; then Block2 reads of both"""
    variants = [
        ({"query": "a=1&k=1"}, {"query": "a=2&k=1"}),
        ({"query": "k=1&a=1"}, {"query": "k=1&a=2"}),
        ({"query": "a=1&k=1"}, {"query": "k=1&a=1"}),
        ({"query": "k=1"}, {"query": ""}),
        ({"query": "a=1&k=1"}, {"query": "k=1"}),
        ({"method": "PUT"}, {"method": "POST"}),
        ({"res": 0}, {"res": 1}),
        ({"client": 0}, {"client": 1}),
        ({"client": 0}, {"client": 2}),
    ]
    for va, vb in variants:
        for szx in (0, 2):
            for order in ("ABAB", "ABBA", "AABB"):
                base = {"client": 0, "res": 0, "query": "k=1", "method": "PUT", "szx": szx, "idle": 0.0, "kind": "block1", "plen": 9, "lenkind": "exact", "num": 1}
                a, b = dict(base, **va), dict(base, **vb)
                seen = {"A": 0, "B": 0}
                steps = []
                for ch in order:
                    proto = a if ch == "A" else b
                    steps.append(dict(proto, rel="next" if seen[ch] else "restart", final=bool(seen[ch])))
                    seen[ch] += 1
                # read both responses back block by block (renderings are serial-numbered, so a foreign slice shows)
                for ch, num in (("A", 1), ("B", 1), ("A", 2)):
                    proto = a if ch == "A" else b
                    steps.append(dict(proto, kind="block2", num=num, szx=szx))
                yield {"steps": steps, "render_lens": [200], "rng": 0}


def cases_refusals():
    """finite grid: a transfer that is under way, one continuation that must be refused (skipped / repeated / earlier /
    far block, wrong payload length), then the correct next blocks: the refusal must not have cost the transfer its state"""
    bads = [{"rel": "skip"}, {"rel": "repeat"}, {"rel": "earlier"}, {"rel": "absolute", "num": 5}] + [{"rel": "next", "lenkind": lk} for lk in ("short", "long", "empty", "half", "double")]
    for bad in bads:
        for szx in (0, 2):
            for method in ("PUT", "POST", "FETCH"):
                for pre in (1, 2):
                    base = {"client": 0, "res": 0, "query": "", "method": method, "szx": szx, "idle": 0.0, "kind": "block1", "plen": 9, "lenkind": "exact", "num": 1}
                    steps = [dict(base, rel="restart", final=False)] + [dict(base, rel="next", final=False) for _ in range(pre - 1)]
                    steps.append(dict(base, final=False, **bad))
                    steps.append(dict(base, rel="next", final=False))
                    steps.append(dict(base, rel="next", final=True))
                    yield {"steps": steps, "render_lens": [40], "rng": 0}


def selftest():
    import aiocoap.blockwise as bw

    orig = bw.Block1Spool.feed_and_take

    def bad(self, req):
        if req.opt.block1 is not None and req.opt.block1.block_number > 0:
            req.opt.block1 = (req.opt.block1.block_number, False, req.opt.block1.size_exponent)
        return orig(self, req)

    bw.Block1Spool.feed_and_take = bad
    try:
        base = {"client": 0, "res": 0, "query": "", "method": "PUT", "szx": 0, "idle": 0.0, "kind": "block1", "plen": 5, "lenkind": "exact", "num": 1}
        out = run_case({"steps": [dict(base, rel="restart", final=False), dict(base, rel="next", final=False)], "render_lens": [10], "rng": 0})
    finally:
        bw.Block1Spool.feed_and_take = orig
    assert out.violations, "oracle cannot fail"


RULE = (
    "Histories of 1-25 requests from 3 raw clients (two share an IP) to a real aiocoap server with three resources (one in a nested site): per step client, resource, query (none / k=1 / a=1&k=1 / a=2&k=1), "
    "method (PUT/POST/FETCH/GET), an idle time before it from {0,1,50,92,94,150,185,187,400 s} and one of: Block1 block chosen relative to the model state of that key (next in order / restart at 0 / "
    "repeat / skip one / an earlier one / absolute number / the next block of another key's assembly on that resource), final or not, size exponent 0/1/2/6, payload exact / one byte short / one byte long / empty / half / two or three times the block size, optionally with Block2 (0, szx); a plain request; a Block2 "
    "request for block 0-4 or far beyond the end. Handlers record (body, endpoint, method, query) and return a serial-numbered rendering of generated length (0 ... 3000). Oracle = reference model keyed "
    "(endpoint, method, path, query): handler invoked exactly for complete in-order bodies with exactly that body; intermediate block => 2.31 echoing Block1; continuation without / not extending an assembly => 4.08; "
    "length contradiction => 4.00; none of them invokes the handler; never 5.xx; Block2 NUM>0 => exact slice of the cached rendering with M iff bytes remain, beyond the end 4.00, no rendering 4.08; state idle < 92.5 s "
    "must exist, idle > 186.5 s must be gone, in between either (the model follows the observed answer). slow_transfers enumerates transfers of 2-6 blocks with every gap below MAX_TRANSMIT_WAIT but a total duration far above it (state must survive because every block is a use). block2_grid enumerates rendering length x first-request size x follow-up (number, size) completely. Non-trivial = every grid cell; history with an out-of-sequence step, an idle time >= 92 s, or two clients interleaved on one key. Distinct = SHA-1 of the case."
)


def build(tier):
    return CheckSpec(
        [
            Sub("block2_grid", run_case, cases=cases_block2_grid, exhaustive=True, note="14 rendering lengths x 6 first-request sizes x 5 follow-up sizes x 5 block numbers"),
            Sub("key_pairs", run_case, cases=cases_key_pairs, exhaustive=True, note="two interleaved transfers whose keys differ in one query entry / query order / method / resource / endpoint"),
            Sub("refusals", run_case, cases=cases_refusals, exhaustive=True, note="a refused continuation (wrong number or length) in the middle of a transfer, then the correct next blocks"),
            Sub("slow_transfers", run_case, cases=cases_slow_transfers, exhaustive=True, note="2-6 blocks x gap 1/50/60/92 s x with/without a second client's abandoned transfer x szx 0/2, then Block2 read-back at the same pace"),
            Sub("histories", run_case, strategy=_case, budget={"quick": 3000, "thorough": 250000}, max_wall={"quick": 55, "thorough": 3600}),
        ],
        RULE,
        assumptions=[
            "OS boundary replaced by vlib.simnet; MAX_TRANSMIT_WAIT = 93 s (default tuning)",
            "wrong-length payload on a NUM=0 block and over-long final blocks are not generated (the statement constrains continuations / M=1 blocks)",
            "a Block2 NUM>0 request after the latest block-0 request produced a rendering small enough not to be cached is generated but only labelled (stale-cache): the statement's two clauses (slice of the latest rendering / 4.08 without one) do not single out one answer",
        ],
        selftest=selftest,
    )
