"""C10 -- message-layer reactions (RFC 7252 section 4 reaction table) of a real aiocoap context to raw datagrams."""

import asyncio

from hypothesis import strategies as st

from vlib import refcodec as R
from vlib.runner import CheckSpec, Outcome, Sub, V
from vlib.simnet import ReqLog, SimNet

ID = "C10"
LEVEL = "exploration"

A = ("fd00::1", 5683)
PEER = ("fd00::2", 5683)
MCAST = "ff02::fd"
MCAST4 = "::ffff:224.0.1.187"

TYPES = ["con", "non", "ack", "rst"]
TYPE_N = {"con": R.CON, "non": R.NON, "ack": R.ACK, "rst": R.RST}
CODES = {
    "empty": 0,
    "get": 1,
    "post": 2,
    "m31": 31,
    "2.05": R.CONTENT,
    "4.04": R.NOT_FOUND,
    "5.00": R.INTERNAL_SERVER_ERROR,
    "3.00": 96,
    "1.00": 32,
    "6.00": 192,
    "7.01": 225,
}
HANDLERS = ["fast", "d0.05", "d0.099", "d0.101", "d0.5", "err404", "own-noresp", "fwd"]
NORESP = [None, 0, 2, 8, 16, 26]


def make_site(net):
    import aiocoap
    from aiocoap import resource

    class Res(resource.Resource):
        def __init__(self, name, delay=0.0, code=None, own_noresp=None, forwarded=False):
            super().__init__()
            self.name, self.delay, self.code, self.own_noresp, self.forwarded = name, delay, code, own_noresp, forwarded

        async def needs_blockwise_assembly(self, request):
            return False

        async def _go(self, request):
            net.events.append((net.loop.time(), "handler", self.name, bytes(request.token), int(request.mid)))
            if self.delay:
                await asyncio.sleep(self.delay)
            m = aiocoap.Message(payload=b"P-" + self.name.encode())
            if self.code is not None:
                m.code = aiocoap.numbers.codes.Code(self.code)
            if self.own_noresp is not None:
                m.opt.no_response = self.own_noresp
            if self.forwarded:
                # a response passed on from upstream (as a forward proxy does): it still knows the confirmable request
                # it answered there, which has no bearing on how *this* request is to be answered
                up = aiocoap.Message(code=aiocoap.GET)
                up.mtype = aiocoap.numbers.types.Type.CON
                m.request = up
            return m

        render_get = render_post = _go

    site = resource.Site()
    site.add_resource(["fast"], Res("fast"))
    site.add_resource(["d0.05"], Res("d0.05", 0.05))
    site.add_resource(["d0.099"], Res("d0.099", 0.099))
    site.add_resource(["d0.101"], Res("d0.101", 0.101))
    site.add_resource(["d0.5"], Res("d0.5", 0.5))
    site.add_resource(["err404"], Res("err404", 0.0, code=R.NOT_FOUND))
    site.add_resource(["fwd"], Res("fwd", 0.0, forwarded=True))
    site.add_resource(["own-noresp"], Res("own-noresp", 0.0, own_noresp=26))
    return site


def handler_delay(h):
    return float(h[1:]) if h.startswith("d0") else 0.0


def handler_class(h):
    return 4 if h == "err404" else 2


def run_case(case, want_trace=False):
    from aiocoap import GET, Message, Reliable, Unreliable, error

    net = SimNet(rng_seed=case.get("rng", 0), mid0=case.get("mid0"))
    vio = []
    labels = set()
    try:
        a = net.add_context("A", *A, site=make_site(net), groups=[MCAST, MCAST4])
        acked = set()

        def peer_handler(peer, t, src, f, raw):
            # acknowledge CON responses so that separate responses are not retransmitted for ever
            if f and f["type"] == R.CON and f["code"] != 0 and case.get("peer_acks", True):
                # (optionally late: meanwhile the server has an exchange of its own outstanding towards the peer)
                peer.send(src, R.msg(R.ACK, 0, f["mid"]), case.get("peer_ack_delay", 0.0))

        peer = net.add_raw("peer", *PEER, handler=peer_handler)
        log = ReqLog(net)
        msgs = case["msgs"]
        # A's own outstanding request(s), so that "token known" rows exist
        known = {}
        need_known = [i for i, m in enumerate(msgs) if m.get("token") == "known"]

        def start_known(i):
            m = Message(code=GET, transport_tuning=Unreliable())
            m.opt.uri_path = ("k%d" % i,)
            m.remote = a.remote(peer)
            known[i] = log.start(a, m, tag=i)

        for i in need_known:
            net.at(0.0, start_known, i)

        def known_token(i):
            for w in net.wire:
                if w["src"] == A:
                    f = R.decode(w["data"])
                    if R.opts(f, R.O_URI_PATH) == ["k%d" % i]:
                        return f["token"]
            return None

        sent = {}

        def send(i):
            m = msgs[i]
            if m.get("dup_of") is not None:
                # a copy of an earlier datagram (same bytes, same MID), e.g. a retransmission that crossed the reply
                j = m["dup_of"]
                if j in sent:
                    sent[j].setdefault("dups", []).append(net.loop.time() + 0.001)
                    peer.send(sent[j]["dst"], sent[j]["data"])
                return
            code = CODES[m["code"]]
            if m.get("token") == "known":
                tok = known_token(i)
            elif m.get("token") == "empty" or code == 0:
                tok = b""
            else:
                tok = bytes([0xD0 + i, 0x77])
            mid = (case.get("peer_mid0", 0x2000) + i) & 0xFFFF
            if m.get("mid_like_own"):
                # the peer's counter happens to be where A's own counter was for the last CON/NON that A originated
                # towards it (the two message-ID spaces are independent, so such coincidences do occur)
                own = [w for w in net.wire_fields() if w["src"] == A and w["dst"] == PEER and w["fields"] is not None and w["fields"]["type"] in (R.CON, R.NON) and w["fields"]["code"] != 0]
                if own:
                    mid = own[-1]["fields"]["mid"]
                    labels.add("peer-mid-equals-own-mid")
            options = []
            payload = b""
            if 1 <= code < 32:
                options.append((R.O_URI_PATH, m.get("handler", "fast")))
                if m.get("noresp") is not None:
                    options.append((R.O_NO_RESPONSE, m["noresp"]))
            elif code != 0:
                payload = b"resp"
            data = R.msg(TYPE_N[m["type"]], code, mid, tok, options, payload)
            dst = (MCAST if m.get("mcast") == 6 else MCAST4, 5683) if m.get("mcast") else A
            sent[i] = dict(mid=mid, token=tok, t=net.loop.time() + 0.001, data=data, dst=dst)
            peer.send(dst, data)

        for i, m in enumerate(msgs):
            net.at(1.0 + m["t"], send, i)

        # client-side: requests to multicast destinations
        mc = case.get("mc_requests", [])
        mc_items = []

        def start_mc(spec):
            tun = {"reliable": Reliable(), "unreliable": Unreliable(), "default": None, "forced-con": None}[spec["tuning"]]
            m = Message(code=GET, transport_tuning=tun)
            if spec["tuning"] == "forced-con":
                from aiocoap.numbers.types import Type

                m.mtype = Type.CON
            m.opt.uri_path = ("mc",)
            m.remote = a.remote(MCAST if spec["v6"] else MCAST4)
            mc_items.append((spec, log.start(a, m)))

        for spec in mc:
            net.at(1.0 + spec["t"], start_mc, spec)

        net.run_until(8.0)

        # ------------------------------ oracle ------------------------------------
        wire = net.wire_fields()
        from_a = [w for w in wire if w["src"] == A and w["fields"] is not None]
        # no CON to a multicast destination, ever
        for w in from_a:
            if w["fields"]["type"] == R.CON and (w["dst"][0].startswith("ff") or w["dst"][0].startswith("::ffff:224.")):
                vio.append(V("C10/con-to-multicast", R.describe(w["fields"])))
        for spec, it in mc_items:
            kind, val = ReqLog.outcome(it)
            onwire = [w for w in from_a if R.opts(w["fields"], R.O_URI_PATH) == ["mc"]]
            if spec["tuning"] == "forced-con":
                labels.add("mc-forced-con")
                if kind != "exception" or not isinstance(val, error.ConToMulticast) or onwire:
                    vio.append(V("C10/con-to-multicast-not-refused", "%s %r, %d datagrams" % (kind, val, len(onwire))))
            else:
                labels.add("mc-non")
                if not any(w["fields"]["type"] == R.NON for w in onwire):
                    vio.append(V("C10/multicast-request-not-sent-non", "%s %r" % (kind, val)))
        handler_events = [e for e in net.events if e[1] == "handler"]
        for i, m in enumerate(msgs):
            s = sent.get(i)
            if s is None or m.get("dup_of") is not None:
                continue
            code = CODES[m["code"]]
            typ = m["type"]
            mid, tok, t_arr = s["mid"], s["token"], s["t"]
            same_mid = [w for w in from_a if w["dst"] == PEER and w["fields"]["mid"] == mid and w["fields"]["type"] in (R.ACK, R.RST)]
            acks = [w for w in same_mid if w["fields"]["type"] == R.ACK]
            rsts = [w for w in same_mid if w["fields"]["type"] == R.RST]
            with_tok = [w for w in from_a if w["dst"] == PEER and w["fields"]["code"] != 0 and w["fields"]["token"] == tok and (w["fields"]["code"] >> 5) in (2, 3, 4, 5)] if tok else []
            invoked = [e for e in handler_events if e[3] == tok and e[4] == mid]
            row = "%s/%s%s" % (typ, m["code"], "/mc" if m.get("mcast") else "")
            labels.add(row if len(msgs) == 1 else "row:" + typ + "/" + ("req" if 1 <= code < 32 else "empty" if code == 0 else "resp" if 64 <= code < 192 else "reserved"))

            def bad(key, text):
                vio.append(V("C10/" + key, "msg %d %r: %s" % (i, m, text)))

            if code == 0:
                if typ == "con":
                    if len(rsts) != 1 or acks:
                        bad("ping-not-reset", "%d RST %d ACK" % (len(rsts), len(acks)))
                else:
                    if same_mid:
                        bad("empty-non-ack-rst-answered", "%d datagrams" % len(same_mid))
                continue
            if 1 <= code < 32:
                if typ in ("ack", "rst"):
                    if same_mid or with_tok or invoked:
                        bad("request-in-ack-or-rst-not-ignored", "sent %d, responses %d, handler %d" % (len(same_mid), len(with_tok), len(invoked)))
                    continue
                if m.get("mcast") and typ == "con":
                    continue  # a peer must not do that; nothing asserted beyond con-to-multicast
                h = m.get("handler", "fast")
                known_handler = code in (1, 2)
                delay = handler_delay(h) if known_handler else 0.0
                cls = handler_class(h) if known_handler else 4
                nr = m.get("noresp")
                if h == "own-noresp" and known_handler:
                    nr = 26
                suppressed = nr is not None and (nr & (1 << (cls - 1))) != 0
                if known_handler and len(invoked) != 1:
                    bad("handler-invocations", "%d" % len(invoked))
                if not known_handler:
                    # answered from an exception (4.05): No-Response is elective (RFC 7967) and documented to be applied by
                    # Resource.render to returned messages only, so only the acknowledgement pattern is asserted here
                    n_resp = len({w["fields"]["mid"] for w in with_tok})
                    if typ == "con":
                        ndup = len(s.get("dups", []))
                        if rsts or not (1 <= len(acks) <= 1 + ndup) or any(w["data"] != acks[0]["data"] for w in acks):
                            bad("con-request-ack-count", "%d ACK %d RST (%d copies)" % (len(acks), len(rsts), ndup))
                    elif same_mid:
                        bad("non-request-acked-or-reset", R.describe(same_mid[0]["fields"]))
                    if n_resp > 1:
                        bad("response-count", "%d" % n_resp)
                    continue
                # distinct responses by MID (a separate CON response may be retransmitted)
                resp_mids = []
                for w in with_tok:
                    if w["fields"]["mid"] not in [r["fields"]["mid"] for r in resp_mids]:
                        resp_mids.append(w)
                if typ == "con":
                    if rsts:
                        bad("con-request-reset", "")
                    dups = s.get("dups", [])
                    if dups:
                        labels.add("duplicate-request")
                        # copies may only cause byte-identical repetitions of the one acknowledgement
                        if not acks or any(w["data"] != acks[0]["data"] for w in acks):
                            bad("con-request-acked-differently", "%s" % [R.describe(w["fields"]) for w in acks])
                            continue
                        later = len([t_ for t_ in dups if t_ >= acks[0]["t"] - 1e-9])
                        if len(acks) > 1 + later:
                            bad("con-request-ack-count", "%d ACK-type datagrams, %d copies arrived after the first ACK" % (len(acks), later))
                            continue
                    elif len(acks) != 1:
                        bad("con-request-ack-count", "%d ACK-type datagrams with its MID" % len(acks))
                        continue
                    ack = acks[0]
                    if abs(delay - 0.1) < 1e-6:
                        continue
                    if delay < 0.1:
                        # piggybacked (or, if suppressed, an empty ACK at response time)
                        if suppressed:
                            if ack["fields"]["code"] != 0 or resp_mids:
                                bad("suppressed-response-sent", R.describe(ack["fields"]))
                        else:
                            if ack["fields"]["code"] == 0:
                                bad("fast-response-not-piggybacked", "empty ACK at %.4f" % ack["t"])
                            elif ack["fields"]["token"] != tok:
                                bad("piggyback-wrong-token", R.describe(ack["fields"]))
                            if len(resp_mids) != 1:
                                bad("response-count", "%d" % len(resp_mids))
                        if abs(ack["t"] - (t_arr + delay)) > 1e-6:
                            bad("ack-time", "ACK at %.6f, expected %.6f" % (ack["t"], t_arr + delay))
                    else:
                        if ack["fields"]["code"] != 0:
                            bad("late-response-piggybacked", R.describe(ack["fields"]))
                        if abs(ack["t"] - (t_arr + 0.1)) > 1e-6:
                            bad("empty-ack-time", "empty ACK at %.6f, expected %.6f" % (ack["t"], t_arr + 0.1))
                        seps = [w for w in resp_mids if w["fields"]["type"] != R.ACK]
                        if suppressed:
                            if resp_mids:
                                bad("suppressed-response-sent", R.describe(resp_mids[0]["fields"]))
                        else:
                            slow_peer = (not case.get("peer_acks", True)) or case.get("peer_ack_delay")
                            if slow_peer and not resp_mids:
                                # held back behind an earlier CON the peer has not acknowledged (yet): NSTART, C14's subject
                                labels.add("separate-response-held-back")
                            elif len(seps) != 1 or len(resp_mids) != 1:
                                bad("separate-response-count", "%d (+%d ACK-typed)" % (len(seps), len(resp_mids) - len(seps)))
                            else:
                                sp = seps[0]
                                # 'fresh' is judged in A's own MID space: no other message originated by A carries it
                                others = [w for w in from_a if w["fields"]["type"] in (R.CON, R.NON) and w["fields"]["mid"] == sp["fields"]["mid"] and w["data"] != sp["data"]]
                                if others:
                                    bad("separate-response-mid-not-fresh", R.describe(others[0]["fields"]))
                                if sp["fields"]["type"] not in (R.CON, R.NON):
                                    bad("separate-response-type", R.describe(sp["fields"]))
                                # (a separate CON response may wait a few ms behind another unacknowledged CON to the same peer: NSTART)
                                if not (t_arr + delay - 1e-6 <= sp["t"] <= t_arr + delay + (0.05 if not slow_peer else 100.0)):
                                    bad("separate-response-time", "%.6f, handler finished at %.6f" % (sp["t"], t_arr + delay))
                else:  # NON request
                    if same_mid:
                        bad("non-request-acked-or-reset", R.describe(same_mid[0]["fields"]))
                    if suppressed:
                        if resp_mids:
                            bad("suppressed-response-sent", R.describe(resp_mids[0]["fields"]))
                    else:
                        if len(resp_mids) != 1:
                            bad("response-count", "%d responses to NON request" % len(resp_mids))
                        elif resp_mids[0]["fields"]["type"] != R.NON:
                            bad("non-request-answered-with-" + ["con", "non", "ack", "rst"][resp_mids[0]["fields"]["type"]], "")
                continue
            if 64 <= code < 192:
                if typ == "rst":
                    if same_mid:
                        bad("response-in-rst-not-ignored", "")
                    continue
                is_known = m.get("token") == "known"
                if is_known:
                    it = known[i]
                    kind, val = ReqLog.outcome(it)
                    if kind != "result":
                        bad("matched-response-not-delivered", "%s %r" % (kind, val))
                    if typ == "con":
                        if len(acks) != 1 or acks[0]["fields"]["code"] != 0 or rsts:
                            bad("matched-con-response-not-acked", "%d ACK %d RST" % (len(acks), len(rsts)))
                    elif same_mid:
                        bad("matched-non-or-ack-response-answered", "")
                else:
                    if typ == "con" and not m.get("mcast"):
                        if len(rsts) != 1 or acks:
                            bad("unmatched-con-response-not-reset", "%d RST %d ACK" % (len(rsts), len(acks)))
                    elif same_mid:
                        bad("unmatched-response-answered", "%s" % R.describe(same_mid[0]["fields"]))
                continue
            # reserved classes 1, 6, 7: never acknowledged, never reach a handler, never answered with a response
            if acks or with_tok or invoked:
                bad("reserved-class-processed", "%d ACK, %d responses, %d handler calls" % (len(acks), len(with_tok), len(invoked)))
        for t, msg, e, exc in net.loop_exceptions:
            vio.append(V("C10/loop-exception/" + type(exc).__name__, "%s %s" % (msg, e)))
        rows = {(m["type"], "req" if 1 <= CODES[m["code"]] < 32 else m["code"]) for m in msgs if m.get("dup_of") is None}
        info = {"trace": net.trace()} if (want_trace or vio) else None
        return Outcome(vio, sorted(labels), len(msgs) == 1 or len(rows) >= 2, info)
    finally:
        for ep in list(net._contexts):
            try:
                net.shutdown_context(ep)
            except Exception:
                pass
        net.close()


def cases_table():
    for typ in TYPES:
        for code in CODES:
            c = CODES[code]
            for mcast in (0, 6, 4):
                if c == 0:
                    yield {"msgs": [{"t": 0.0, "type": typ, "code": code, "token": "empty", "mcast": mcast}]}
                elif 1 <= c < 32:
                    for h in HANDLERS:
                        for nr in NORESP:
                            yield {"msgs": [{"t": 0.0, "type": typ, "code": code, "token": "fresh", "mcast": mcast, "handler": h, "noresp": nr}]}
                else:
                    for tok in ("known", "unknown", "empty"):
                        yield {"msgs": [{"t": 0.0, "type": typ, "code": code, "token": tok, "mcast": mcast}]}
    for tuning in ("reliable", "unreliable", "default", "forced-con"):
        for v6 in (True, False):
            yield {"msgs": [], "mc_requests": [{"t": 0.0, "tuning": tuning, "v6": v6}]}


@st.composite
def _sequence(draw):
    n = draw(st.integers(2, 6))
    msgs = []
    for _ in range(n):
        code = draw(st.sampled_from(list(CODES)))
        c = CODES[code]
        m = {"t": draw(st.sampled_from([0.0, 0.0, 0.001, 0.05, 0.098, 0.099, 0.1, 0.101, 0.3, 1.0])), "type": draw(st.sampled_from(TYPES)), "code": code, "mcast": draw(st.sampled_from([0, 0, 0, 6, 4]))}
        if c == 0:
            m["token"] = "empty"
        elif 1 <= c < 32:
            m["token"] = "fresh"
            m["handler"] = draw(st.sampled_from(HANDLERS))
            m["noresp"] = draw(st.sampled_from(NORESP))
        else:
            m["token"] = draw(st.sampled_from(["known", "unknown", "empty"]))
        msgs.append(m)
        if 1 <= c < 32 and m["type"] in ("con", "non") and draw(st.integers(0, 3)) == 0:
            # one or two copies of that request datagram, before or after its acknowledgement
            for _ in range(draw(st.integers(1, 2))):
                msgs.append({"t": round(m["t"] + draw(st.sampled_from([0.0, 0.01, 0.04, 0.09, 0.11, 0.3, 0.6])), 3), "dup_of": len(msgs) - 1 if "dup_of" not in msgs[-1] else msgs[-1]["dup_of"], "type": m["type"], "code": m["code"]})
    if draw(st.integers(0, 5)) == 0:
        # A answers a slow request with a separate CON of its own; later the peer's next message carries that very ID
        msgs.append({"t": 0.0, "type": "con", "code": "get", "mcast": 0, "token": "fresh", "handler": draw(st.sampled_from(["d0.101", "d0.5"])), "noresp": None})
        late = {"t": draw(st.sampled_from([0.7, 1.0, 1.0])), "type": draw(st.sampled_from(["con", "con", "non"])), "mcast": 0, "mid_like_own": True}
        if draw(st.booleans()):
            late.update({"code": "empty", "token": "empty", "type": "con"})
        else:
            late.update({"code": "get", "token": "fresh", "handler": draw(st.sampled_from(["fast", "d0.05", "d0.5"])), "noresp": None})
        msgs.append(late)
    case = {"msgs": msgs, "rng": draw(st.integers(0, 99))}
    if any(m.get("mid_like_own") for m in msgs):
        # A's own counter well away from the IDs the peer uses for its other messages: only the one coincidence
        case["mid0"] = 0x7000 + draw(st.integers(0, 3))
    elif draw(st.booleans()):
        case["mid0"] = draw(st.sampled_from([0x1FFE, 0x2000, 0x2001, 0x2001, 0x2002, 0x2002, 0x2003, 0x2004, 0xFFFF]))  # (the peer numbers its messages from 0x2000)
    if not any(m.get("mid_like_own") for m in msgs) and draw(st.integers(0, 3)) == 0:
        # the peer's message IDs around the wrap: 0xFFFE, 0xFFFF, 0, 1, ...
        case["peer_mid0"] = draw(st.sampled_from([0, 0xFFFE, 0xFFFF, 0xFFFC]))
        if case.get("mid0") is not None and 0x2000 <= case["mid0"] <= 0x2010:
            pass
    pa = draw(st.sampled_from(["prompt", "prompt", "late", "late", "never"]))
    if pa == "late":
        case["peer_ack_delay"] = draw(st.sampled_from([0.3, 1.0, 2.5]))
    elif pa == "never":
        case["peer_acks"] = False
    if draw(st.integers(0, 3)) == 0:
        case["mc_requests"] = [{"t": draw(st.sampled_from([0.0, 0.05])), "tuning": draw(st.sampled_from(["reliable", "unreliable", "default", "forced-con"])), "v6": draw(st.booleans())}]
    return case


def selftest():
    import aiocoap.messagemanager as mm

    orig = mm.MessageManager._process_ping
    mm.MessageManager._process_ping = lambda self, message: None
    try:
        out = run_case({"msgs": [{"t": 0.0, "type": "con", "code": "empty", "token": "empty", "mcast": 0}]})
    finally:
        mm.MessageManager._process_ping = orig
    assert out.violations, "oracle cannot fail"


RULE = (
    "A raw peer sends datagrams built with the independent codec to a real aiocoap context (site with fast / 50 ms / 99 ms / 101 ms / 500 ms / 4.04 / "
    "self-suppressing handlers; one outstanding client request per 'known token' message); the reaction is read off the simulated wire with virtual "
    "timestamps. table = complete enumeration of {CON,NON,ACK,RST} x {Empty, GET, POST, method 0.31, 2.05, 4.04, 5.00, 3.00, 1.00, 6.00, 7.01} x "
    "{unicast, IPv6 multicast, IPv4 multicast local address} x (requests: 7 handlers x No-Response {none,0,2,8,16,26}; responses: token known/unknown/empty) "
    "plus client requests to multicast with Reliable/Unreliable/default tuning. sequences = 2-6 such messages at offsets around EMPTY_ACK_DELAY, a quarter of the requests followed by 1-2 copies of the same datagram before or after the acknowledgement (they may only cause byte-identical repetitions of the one ACK). Oracle = RFC 7252 s.4 "
    "reaction table of the statement (piggyback vs empty ACK at exactly +100 ms and separate response with fresh MID/same token, NON never ACKed and answered NON, "
    "ping -> RST, matched CON response -> empty ACK, unmatched -> RST unless multicast, nothing for unmatched NON/ACK/RST and ill-fitting type/code, suppressed responses, "
    "no CON to multicast / ConToMulticast). Non-trivial: every table cell; sequences with >= 2 different table rows. Distinct = SHA-1 of the case."
)


def build(tier):
    return CheckSpec(
        [
            Sub("table", run_case, cases=cases_table, exhaustive=True),
            Sub("sequences", run_case, strategy=_sequence, budget={"quick": 8000, "thorough": 300000}, max_wall={"quick": 50, "thorough": 3600}),
        ],
        RULE,
        assumptions=[
            "for reserved code classes (1, 6, 7; 3.xx is handled as the response class it syntactically is) only 'not acknowledged, not answered with a response, not handed to a handler' is asserted (a Reset is allowed by RFC 7252 4.2 and not demanded by the statement)",
            "CON requests received on a multicast address are generated but nothing is asserted about their acknowledgement",
            "handler delay exactly equal to EMPTY_ACK_DELAY is generated but not asserted (timer tie)",
        ],
        selftest=selftest,
    )
