"""C15 -- CoAP over TCP: framing for every chunking, serialisation, CSM gate, Abort on malformed input, Ping/Pong,
Release/Abort from the peer, Empty.  Differential against the independent RFC 8323 framer vlib.ref8323."""

import logging

from hypothesis import strategies as st

from vlib import ref8323 as F
from vlib import refcodec as R
from vlib.runner import CheckSpec, Outcome, Sub, V, exc_key

ID = "C15"
LEVEL = "exploration"

MAXSIZE = 1024 * 1024
BODY_SIZES = [0, 1, 11, 12, 13, 14, 267, 268, 269, 270, 1000, 65803, 65804, 65805, 65806, 70000]


class FakeStreamTransport:
    def __init__(self):
        self.written = bytearray()
        self.closed = False
        self.writes_after_close = 0

    def write(self, data):
        if self.closed:
            self.writes_after_close += 1
            return
        self.written += data

    def close(self):
        self.closed = True

    def is_closing(self):
        return self.closed

    def get_extra_info(self, name, default=None):
        if name == "sockname":
            return ("fd00::1", 5683, 0, 0)
        if name == "peername":
            return ("fd00::2", 40000, 0, 0)
        return default


class StubTokenManager:
    def __init__(self):
        self.log = []

    def process_request(self, msg):
        self.log.append(("request", msg))

    def process_response(self, msg):
        self.log.append(("response", msg))
        return True

    def dispatch_error(self, exc, remote):
        self.log.append(("error", exc))


_log = logging.getLogger("vp-c15")
_log.setLevel(100)


def make_connection(is_server, tman=None):
    from aiocoap.transports.tcp import TCPClient, TCPServer, TcpConnection

    pool = TCPServer() if is_server else TCPClient()
    pool._tokenmanager = tman if tman is not None else StubTokenManager()
    pool.log = _log
    conn = TcpConnection(pool, _log, None, is_server=is_server)
    if is_server:
        pool._pool.add(conn)
    else:
        pool._pool[("peer", 5683)] = conn
    tr = FakeStreamTransport()
    conn.connection_made(tr)
    return pool, conn, tr


def _interp(options):
    out = []
    for n, raw in options:
        try:
            out.append((n, R.interpret(n, raw)))
        except R.FormatError:
            out.append((n, ("raw", raw)))
    return out


def observed(msg):
    return dict(code=int(msg.code), token=bytes(msg.token), options=_interp([(int(o.number), bytes(o.encode())) for o in msg.opt.option_list()]), payload=bytes(msg.payload))


def canon(f):
    return dict(code=f["code"], token=f["token"], options=_interp(f["options"]), payload=f["payload"])


# --------------------------------------------------------------------------------------
# stream items


def item_bytes(it):
    if it["kind"] == "raw":
        return it["bytes"]
    return F.encode(dict(code=it["code"], token=it.get("token", b""), options=[(n, v) for n, v in it.get("options", [])], payload=it.get("payload", b"")))


def classify(fields):
    c = fields["code"]
    if c == 0:
        return "empty"
    if c >= 224:
        return "signalling"
    if 1 <= c < 32:
        return "request"
    if 64 <= c < 192:
        return "response"
    return "reserved"


def reference_run(stream):
    """What an RFC 8323 endpoint does with the byte stream, frame by frame.
    -> dict(dispatch=[fields], pongs=[token], end=None | ("abort", why, strict) | ("peer-closed", code), dontcare=reason or None)"""
    out = dict(dispatch=[], pongs=[], end=None, dontcare=None)
    pos = 0
    csm = False
    while True:
        try:
            hl, tkl, blen = F.header(stream, pos)
        except F.NeedMore:
            return out
        total = hl + tkl + blen
        if total > MAXSIZE:
            out["end"] = ("abort", "frame larger than max-message-size", True)
            return out
        if len(stream) < pos + total:
            if tkl > 8:
                out["dontcare"] = "incomplete frame with TKL > 8 (abort now or when complete)"
            return out
        frame = stream[pos : pos + total]
        pos += total
        try:
            f = F.decode_frame(frame)
        except R.FormatError as e:
            if "zero-length payload" in str(e):
                out["dontcare"] = "payload marker followed by nothing"
                return out
            out["end"] = ("abort", "unparsable frame: %s" % e, True)
            return out
        # string options must be UTF-8 (RFC 7252 3.2); aiocoap parses signalling options with the same table
        try:
            for n, raw in f["options"]:
                R.interpret(n, raw)
        except R.FormatError as e:
            out["end"] = ("abort", "unparsable frame: %s" % e, True)
            return out
        kind = classify(f)
        if kind == "signalling":
            code = f["code"]
            if code not in (F.CSM, F.PING, F.PONG, F.RELEASE, F.ABORT):
                out["dontcare"] = "unassigned signalling code"
                return out
            known = {F.CSM: (2, 4)}.get(code, ())
            crit = [n for n, _ in f["options"] if n % 2 == 1 and n not in known]
            if crit:
                out["end"] = ("abort", "unknown critical option %d in signalling message" % crit[0], False)
                return out
            if code == F.CSM:
                csm = True
            elif code == F.PING:
                out["pongs"].append(f["token"])
            elif code in (F.RELEASE, F.ABORT):
                out["end"] = ("peer-closed", code)
                return out
            continue
        if kind == "reserved":
            out["dontcare"] = "reserved code class"
            return out
        if not csm:
            if kind == "empty":
                out["dontcare"] = "Empty before CSM"
                return out
            out["end"] = ("abort", "request/response before CSM", True)
            return out
        if kind == "empty":
            continue
        out["dispatch"].append((kind, f))


def feed(conn, tr, stream, cuts):
    pos = 0
    for c in list(cuts) + [len(stream)]:
        if c <= pos:
            continue
        if tr.closed:
            break
        conn.data_received(bytes(stream[pos:c]))
        pos = c


def run_stream(case):
    vio = []
    labels = set()
    items = case["items"]
    stream = b"".join(item_bytes(it) for it in items)
    ref = reference_run(stream)
    if ref["dontcare"]:
        return Outcome([], ["dontcare:" + ref["dontcare"]], False)
    chunkings = [case.get("cuts", [])]
    if case.get("also_whole", True):
        chunkings.append([])
    if len(stream) <= 600:
        chunkings.append(list(range(1, len(stream))))
    logs = []
    split_header = False
    for cuts in chunkings:
        pool, conn, tr = make_connection(case.get("is_server", True))
        tman = pool._tokenmanager
        try:
            feed(conn, tr, stream, cuts)
        except Exception as e:
            vio.append(V("C15/data_received-raises/" + exc_key(e), "%r with cuts %r" % (e, cuts[:20])))
            continue
        got = [(k, observed(m)) for k, m in tman.log if k in ("request", "response")]
        errors = [m for k, m in tman.log if k == "error"]
        want = [(k, canon(f)) for k, f in ref["dispatch"]]
        end = ref["end"]
        try:
            written = F.decode_stream(bytes(tr.written))
            consumed = sum(len(F.encode(w)) for w in written)
            if consumed != len(tr.written):
                vio.append(V("C15/written-bytes-not-rfc8323-frames", bytes(tr.written).hex()[:200]))
        except (R.FormatError, AssertionError) as e:
            vio.append(V("C15/written-bytes-not-rfc8323-frames", "%r %s" % (e, bytes(tr.written).hex()[:200])))
            continue
        aborts = [w for w in written if w["code"] == F.ABORT]
        pongs = [w["token"] for w in written if w["code"] == F.PONG]
        # after the peer's own Release/Abort, and after an Abort raised inside signalling processing, aiocoap keeps working off
        # the bytes of the same chunk; the statement demands close / Abort there, so only the dispatch prefix is asserted
        strict = end is None or (end[0] == "abort" and end[2])
        if strict:
            if got != want:
                extra_empty = [g for g in got if g[1]["code"] == 0]
                vio.append(V("C15/empty-message-dispatched" if extra_empty and [g for g in got if g[1]["code"] != 0] == want else "C15/dispatch-differs-from-reference", "cuts %r\n got  %s\n want %s" % (cuts[:12], _short(got), _short(want))))
            if pongs != ref["pongs"]:
                vio.append(V("C15/pongs-differ", "got %r want %r" % (pongs, ref["pongs"])))
        else:
            if got[: len(want)] != want or pongs[: len(ref["pongs"])] != ref["pongs"]:
                vio.append(V("C15/dispatch-differs-from-reference", "cuts %r\n got  %s\n want %s" % (cuts[:12], _short(got), _short(want))))
        if not written or written[0]["code"] != F.CSM:
            vio.append(V("C15/no-initial-csm", _short(written[:2])))
        if end is None:
            if aborts or tr.closed:
                vio.append(V("C15/spurious-abort-or-close", "aborts %s closed %s for a well-formed stream" % (_short(aborts), tr.closed)))
        elif end[0] == "abort":
            labels.add("abort:" + end[1].split(":")[0].split(" in ")[0][:40])
            if not aborts:
                vio.append(V("C15/no-abort-sent/" + end[1].split(":")[0][:40].replace(" ", "-"), "reference: %s; written %s" % (end[1], _short(written))))
            if not tr.closed:
                vio.append(V("C15/not-closed-after-abort/" + end[1].split(":")[0][:40].replace(" ", "-"), end[1]))
        else:
            labels.add("peer-release" if end[1] == F.RELEASE else "peer-abort")
            if not tr.closed:
                vio.append(V("C15/not-closed-after-release-or-abort", ""))
            if len(errors) < 1:
                vio.append(V("C15/release-or-abort-not-reported-to-requests", ""))
        logs.append(got)
        # was a frame split inside its header?
        pos = 0
        bounds = []
        for it in items:
            b = item_bytes(it)
            try:
                hl = F.header(b)[0]
            except F.NeedMore:
                hl = len(b)
            bounds.append((pos, pos + hl))
            pos += len(b)
        if any(a_ < c < b_ for c in cuts for a_, b_ in bounds):
            split_header = True
    ext = any(len(item_bytes(it)) > 14 and (item_bytes(it)[0] >> 4) >= 13 for it in items)
    if split_header:
        labels.add("split-inside-header")
    if ext:
        labels.add("extended-length")
    labels.add("frames=%d" % min(len(items), 5))
    return Outcome(vio, sorted(labels), split_header or ext)


def _short(x):
    s = repr(x)
    return s if len(s) < 500 else s[:500] + "..."


def fuzz_one(data):
    """Atheris entry (E4): byte 0 = role and number of cuts, next bytes = cut positions, rest = the stream"""
    if len(data) < 2:
        return [], "short", False
    role = data[0] & 1
    ncuts = (data[0] >> 1) & 3
    cuts = sorted(set(data[1 : 1 + ncuts]))
    stream = data[1 + ncuts :]
    out = run_stream({"items": [{"kind": "raw", "bytes": stream}], "cuts": [c for c in cuts if 0 < c < len(stream)], "is_server": bool(role), "also_whole": True})
    label = out.labels[0] if out.labels else "plain"
    return out.violations, label, out.nontrivial


def _atheris(tier, seed, known):
    import os

    from vlib import fuzz

    runs = {"quick": 15000, "thorough": 600000}[tier]
    workers = {"quick": 2, "thorough": 16}[tier]
    return fuzz.run("checks.c15", runs, workers, seed, known, corpus=os.path.join(os.path.dirname(os.path.dirname(os.path.abspath(__file__))), "corpus", "c15"))


# --------------------------------------------------------------------------------------
# serialisation


def run_serialize(f):
    from aiocoap import Message
    from aiocoap.numbers.optionnumbers import OptionNumber
    from aiocoap.transports.tcp import _decode_message, _serialize

    vio = []
    m = Message(code=f["code"], payload=f["payload"])
    m.token = f["token"]
    opts = sorted(f["options"], key=lambda o: o[0])
    for n, v in f["options"]:
        m.opt.add_option(OptionNumber(n).create_option(decode=v))
    want = F.encode(dict(code=f["code"], token=f["token"], options=[(n, v) for n, v in opts], payload=f["payload"]))
    try:
        got = _serialize(m)
    except Exception as e:
        return Outcome([V("C15/serialize-raises/" + exc_key(e), repr(e))], ["raises"], True)
    if got != want:
        vio.append(V("C15/serialize-differs", "len %d vs %d; head %s vs %s" % (len(got), len(want), got[:12].hex(), want[:12].hex())))
    try:
        back = observed(_decode_message(want))
        if back != canon(dict(code=f["code"], token=f["token"], options=[(n, v) for n, v in opts], payload=f["payload"])):
            vio.append(V("C15/decode-differs", _short(back)))
    except Exception as e:
        vio.append(V("C15/decode-raises/" + exc_key(e), repr(e)))
    n = len(want)
    return Outcome(vio, ["len-nibble=%d" % (want[0] >> 4)], (want[0] >> 4) >= 13)


def cases_lengths():
    for lo in range(0, 70200, 300):
        yield {"lo": lo, "hi": lo + 300}
    yield {"lo": 2**20 - 5, "hi": 2**20 + 5}
    yield {"lo": 2**32 + 65805 - 3, "hi": 2**32 + 65805}
    yield {"headers": True}


def run_lengths(case):
    from aiocoap.transports.tcp import _encode_length, _extract_message_size

    vio = []
    if case.get("headers"):
        for b0 in range(256):
            for tail in (b"", b"\x00", b"\x01\x02", b"\xff\xff\xff", b"\x00\x00\x00\x00", b"\xff\xff\xff\xff\x01"):
                data = bytes([b0]) + tail
                got = _extract_message_size(data)
                try:
                    hl, tkl, blen = F.header(data)
                    want = (hl, tkl, blen)
                except F.NeedMore:
                    want = None
                if got != want:
                    vio.append(V("C15/extract-message-size", "%s: %r != %r" % (data.hex(), got, want)))
        return Outcome(vio, ["headers"], True)
    for n in range(case["lo"], case["hi"]):
        got = _encode_length(n)
        want = F.encode_len(n)
        if got != want:
            vio.append(V("C15/encode-length/%s" % (n if n in (12, 13, 268, 269, 65804, 65805) else "x"), "%d: %r != %r" % (n, got, want)))
    return Outcome(vio, ["range"], case["hi"] > 13)


# --------------------------------------------------------------------------------------
# pending requests and Release / Abort / connection loss


def run_pending(case):
    import asyncio

    from vlib.simnet import VirtualClockLoop

    vio = []
    loop = VirtualClockLoop()
    asyncio.set_event_loop(loop)
    try:
        from aiocoap import GET, Message, error
        from aiocoap.protocol import Context
        from aiocoap.tokenmanager import TokenManager

        async def main():
            ctx = Context(loop=loop, serversite=None, loggername="vp-c15.ctx")
            ctx.log.setLevel(100)
            tman = TokenManager(ctx)
            pool, conn, tr = make_connection(False, tman)
            pool.loop = loop
            tman.token_interface = pool
            ctx.request_interfaces.append(tman)
            conn.data_received(F.encode(dict(code=F.CSM, token=b"", options=[], payload=b"")))
            if case.get("orphan"):
                # two requests to a not yet connected host each open a connection; the later one takes the pool
                # entry, the earlier one lives on outside the pool with its requests pending on it
                from aiocoap.transports.tcp import TcpConnection

                conn2 = TcpConnection(pool, _log, None, is_server=False)
                pool._pool[("peer", 5683)] = conn2
                conn2.connection_made(FakeStreamTransport())
                conn2.data_received(F.encode(dict(code=F.CSM, token=b"", options=[], payload=b"")))
            reqs = []
            for i in range(case["n"]):
                m = Message(code=GET)
                m.opt.uri_path = ("p%d" % i,)
                m.remote = conn
                reqs.append(ctx.request(m, handle_blockwise=False))
            await asyncio.sleep(0.01)
            sent = F.decode_stream(bytes(tr.written))
            tokens = [w["token"] for w in sent if 1 <= w["code"] < 32]
            if len(tokens) != case["n"]:
                vio.append(V("C15/requests-not-written", "%d of %d" % (len(tokens), case["n"])))
                return
            stream = b""
            answered = set()
            for i in case["answer"]:
                if i < len(tokens):
                    stream += F.encode(dict(code=R.CONTENT, token=tokens[i], options=[], payload=b"r%d" % i))
                    answered.add(i)
            if case["end"] in ("release", "abort"):
                stream += F.encode(dict(code=F.RELEASE if case["end"] == "release" else F.ABORT, token=b"", options=[], payload=b"bye" if case["end"] == "abort" else b""))
            feed(conn, tr, stream, case.get("cuts", []))
            if case["end"] == "lost":
                conn.connection_lost(None)
            elif case["end"] == "lost-exc":
                conn.connection_lost(ConnectionResetError("reset"))
            await asyncio.sleep(0.01)
            for i, r in enumerate(reqs):
                fut = r.response
                if not fut.done():
                    vio.append(V("C15/pending-request-hangs-after-" + case["end"], "request %d" % i))
                elif i in answered:
                    if fut.exception() is not None or bytes(fut.result().payload) != b"r%d" % i:
                        vio.append(V("C15/answered-request-wrong", repr(fut)))
                else:
                    exc = fut.exception()
                    if not isinstance(exc, error.NetworkError):
                        vio.append(V("C15/pending-request-not-network-error/" + type(exc).__name__, repr(exc)))
            if case["end"] in ("release", "abort") and not tr.closed:
                vio.append(V("C15/not-closed-after-release-or-abort", ""))

        loop.run_until_complete(main())
    finally:
        try:
            pend = [t for t in asyncio.all_tasks(loop) if not t.done()]
            for t in pend:
                t.cancel()
            if pend:
                loop.run_until_complete(asyncio.gather(*pend, return_exceptions=True))
        finally:
            asyncio.set_event_loop(None)
            loop.close()
    return Outcome(vio, ["end-" + case["end"], "pending=%d" % (case["n"] - len(set(case["answer"])))] + (["connection-not-in-pool"] if case.get("orphan") else []), case["n"] - len(set(case["answer"])) >= 1)


# --------------------------------------------------------------------------------------
# strategies

_token = st.binary(max_size=8)
_opts = st.lists(
    st.one_of(
        st.tuples(st.just(11), st.text(alphabet="abcxyz/ä", max_size=6).map(lambda s: s.encode())),
        st.tuples(st.just(15), st.text(alphabet="k=v&", max_size=5).map(lambda s: s.encode())),
        st.tuples(st.just(12), st.sampled_from([b"", b"\x28", b"\x01\x00"])),
        st.tuples(st.just(4), st.binary(min_size=1, max_size=8)),
        st.tuples(st.just(60), st.sampled_from([b"", b"\x10", b"\xff\xff"])),
        st.tuples(st.sampled_from([2000, 65000]), st.binary(max_size=3)),
    ).map(list),
    max_size=4,
).map(lambda l: sorted(l, key=lambda o: o[0]))


def _payload():
    return st.one_of(st.just(b""), st.binary(min_size=1, max_size=20), st.sampled_from(BODY_SIZES).map(lambda n: b"\xa7" * n))


@st.composite
def _fields(draw):
    return {"code": draw(st.sampled_from([1, 2, 3, 4, 5, 69, 68, 132, 160, 0xE1, 0xE2, 0xE5, 0])), "token": draw(_token), "options": draw(_opts), "payload": draw(_payload())}


@st.composite
def _item(draw):
    kind = draw(st.sampled_from(["msg"] * 8 + ["csm", "ping", "ping", "pong", "empty", "release", "abort"]))
    if kind == "msg":
        return {"kind": "msg", "code": draw(st.sampled_from([1, 2, 3, 4, 5, 69, 68, 132, 160])), "token": draw(_token), "options": draw(_opts), "payload": draw(_payload())}
    if kind == "empty":
        return {"kind": "empty", "code": 0, "token": b"", "options": [], "payload": b""}
    sig_opts = draw(st.lists(st.sampled_from([[2, b"\x10\x00\x00"], [4, b""], [8, b"x"], [10, b""], [7, b"z"], [9, b""]]), max_size=2).map(lambda l: sorted(l, key=lambda o: o[0])))
    code = {"csm": F.CSM, "ping": F.PING, "pong": F.PONG, "release": F.RELEASE, "abort": F.ABORT}[kind]
    return {"kind": kind, "code": code, "token": draw(_token) if kind in ("ping", "pong") else b"", "options": sig_opts, "payload": b"diag" if kind == "abort" else b""}


_MALFORMED = [
    b"\xf0\xff\xff\xff\xff\x01",  # 32-bit extended length far above max-message-size
    b"\xf0\x00\x0f\x00\x00\x01",  # just above 1 MiB
    b"\x09\x01123456789",  # TKL 9
    b"\x0f\x01" + b"t" * 15,  # TKL 15
    b"\x10\x01\xf0",  # option nibble 15 (delta)
    b"\x10\x01\x0f",  # option nibble 15 (length)
    b"\x10\x01\x15",  # option longer than frame
    b"\x10\x01\xd0",  # extended delta missing
    b"\x20\x01\x31\xc3",  # Uri-Host not UTF-8
    b"\x30\x01\xb2\xc3\x28",  # Uri-Path not UTF-8
]


@st.composite
def _stream_case(draw):
    n = draw(st.integers(0, 10))
    items = [draw(_item()) for _ in range(n)]
    csm_pos = draw(st.one_of(st.just(0), st.just(0), st.just(0), st.integers(0, n), st.none()))
    if csm_pos is not None:
        items.insert(min(csm_pos, len(items)), {"kind": "csm", "code": F.CSM, "token": b"", "options": draw(st.sampled_from([[], [[2, b"\x04\x80"]], [[2, b"\x10\x00\x00"], [4, b""]], [[8, b"e"]]])), "payload": b""})
    if draw(st.integers(0, 3)) == 0:
        items.insert(draw(st.integers(0, len(items))), {"kind": "raw", "bytes": draw(st.sampled_from(_MALFORMED))})
    elif draw(st.integers(0, 5)) == 0:
        # a frame announced right at the max-message-size boundary (whole frame = MAXSIZE + k): only its header
        # and token are sent -- above the limit that is enough to demand the Abort, at or below it the
        # endpoint has to keep waiting for the body
        tkl = draw(st.integers(0, 8))
        k = draw(st.integers(-3, 16))
        blen = MAXSIZE + k - 6 - tkl
        items.append({"kind": "raw", "bytes": bytes([0xF0 | tkl]) + (blen - 65805).to_bytes(4, "big") + b"\x01" + b"T" * tkl})
    total = sum(len(item_bytes(it)) for it in items)
    ncuts = draw(st.integers(0, 8))
    cuts = sorted({draw(st.integers(0, max(total, 1))) for _ in range(ncuts)})
    # cut inside headers on purpose
    pos = 0
    for it in items:
        if draw(st.integers(0, 3)) == 0:
            cuts.append(pos + draw(st.integers(1, 3)))
        pos += len(item_bytes(it))
    cuts = sorted(set(c for c in cuts if 0 < c < total))
    return {"items": items, "cuts": cuts, "is_server": draw(st.booleans())}


@st.composite
def _mutated_case(draw):
    base = draw(_stream_case())
    stream = bytearray(b"".join(item_bytes(it) for it in base["items"]))
    if len(stream) > 3000:
        stream = stream[:3000]
    for _ in range(draw(st.integers(1, 3))):
        if not stream:
            break
        p = draw(st.integers(0, min(len(stream) - 1, 80)))
        op = draw(st.sampled_from(["set", "flip", "ins", "del"]))
        if op == "set":
            stream[p] = draw(st.integers(0, 255))
        elif op == "flip":
            stream[p] ^= 1 << draw(st.integers(0, 7))
        elif op == "ins":
            stream.insert(p, draw(st.integers(0, 255)))
        else:
            del stream[p]
    return {"items": [{"kind": "raw", "bytes": bytes(stream)}], "cuts": base["cuts"], "is_server": base["is_server"]}


@st.composite
def _pending_case(draw):
    n = draw(st.integers(1, 4))
    return {"n": n, "answer": draw(st.lists(st.integers(0, n - 1), max_size=n, unique=True)), "end": draw(st.sampled_from(["release", "abort", "lost", "lost-exc"])), "cuts": sorted(set(draw(st.lists(st.integers(1, 30), max_size=4)))), "orphan": draw(st.sampled_from([False, False, True]))}


def selftest():
    global reference_run
    F.selftest()
    r = reference_run(F.encode(dict(code=1, token=b"", options=[], payload=b"")))
    assert r["end"] and r["end"][0] == "abort"
    s = F.encode(dict(code=F.CSM, token=b"", options=[], payload=b"")) + F.encode(dict(code=F.PING, token=b"ab", options=[], payload=b"")) + F.encode(dict(code=1, token=b"t", options=[(11, b"x")], payload=b"p"))
    r = reference_run(s)
    assert r["pongs"] == [b"ab"] and len(r["dispatch"]) == 1 and r["end"] is None
    # the oracle can fail: swap the reference's expectation
    out = run_stream({"items": [{"kind": "raw", "bytes": s + b"\x00\x45"}], "cuts": [3], "is_server": True})
    # (no assertion on emptiness: that would test aiocoap); but a fabricated wrong expectation must be flagged
    real = reference_run
    reference_run = lambda stream: dict(dispatch=[], pongs=[], end=None, dontcare=None)
    try:
        out = run_stream({"items": [{"kind": "raw", "bytes": s}], "cuts": [3], "is_server": True})
    finally:
        reference_run = real
    assert out.violations, "oracle cannot fail"


RULE = (
    "stream: Hypothesis builds a byte stream of 0-11 frames with the independent RFC 8323 serialiser (requests/responses with tokens 0-8, options, bodies of "
    "{0,1,11,12,13,14,267,268,269,270,1000,65803..65806,70000} bytes; CSM at a generated position or missing, with elective/critical unknown options; Ping, Pong, Release, Abort, Empty; "
    "optionally one malformed frame: announced length far above, or whole-frame size within -3..+16 bytes of, max-message-size, TKL 9/15, option nibble 15, option longer than the frame, truncated extension, non-UTF-8 string option) and a cut set "
    "(random cuts, cuts forced inside frame headers); the same stream is also fed whole and, if <= 600 bytes, byte by byte, into a real TcpConnection on a fake transport (server and client role). "
    "Oracle: a reference endpoint built on the independent framer says which messages must be dispatched (order, code, token, options, payload), which Pongs written, and whether the stream ends in "
    "Abort+close (CSM gate, oversize, TKL, unparsable, critical signalling option) or in a peer Release/Abort; everything aiocoap writes must parse as RFC 8323 frames, starting with its CSM. "
    "mutated: 1-3 byte-level mutations of such streams, same oracle (ambiguous classes are skipped and counted). serialize: _serialize/_decode_message vs the reference on generated messages. "
    "lengths: exhaustive _encode_length 0..70200 and boundary values, _extract_message_size over all first bytes. pending: 1-4 pending requests on a real TokenManager, some answered, then "
    "Release / Abort / connection loss => the rest fail with NetworkError. Non-trivial = a frame split inside its header or an extended-length frame (stream, mutated); length nibble >= 13 (serialize); "
    ">= 1 request still pending (pending). Distinct = SHA-1 of the case."
)


def build(tier):
    return CheckSpec(
        [
            Sub("stream", run_stream, strategy=_stream_case, budget={"quick": 3000, "thorough": 180000}, max_wall={"quick": 50, "thorough": 3600}),
            Sub("mutated", run_stream, strategy=_mutated_case, budget={"quick": 3000, "thorough": 180000}, max_wall={"quick": 50, "thorough": 3600}),
            Sub("atheris", run_stream, strategy=_mutated_case, external=_atheris, note="coverage-guided (libFuzzer via Atheris): bytes -> (role, cut set, stream), reference-endpoint oracle inside the target; skipped with a note if atheris is not installed"),
            Sub("serialize", run_serialize, strategy=_fields, budget={"quick": 1500, "thorough": 90000}, max_wall={"quick": 40, "thorough": 3600}),
            Sub("lengths", run_lengths, cases=cases_lengths, exhaustive=True),
            Sub("pending", run_pending, strategy=_pending_case, budget={"quick": 400, "thorough": 15000}, max_wall={"quick": 40, "thorough": 3600}),
        ],
        RULE,
        assumptions=[
            "vlib/ref8323.py is a correct reading of RFC 8323 section 3.2 (self-tested on boundary lengths)",
            "the harness stops feeding bytes once the transport was closed, as asyncio does",
            "don't-care classes (skipped, counted): unassigned 7.xx codes, reserved code classes 1/6, Empty before the CSM, payload marker followed by nothing, incomplete trailing frame with TKL > 8",
            "after an Abort raised from within signalling-option processing only the dispatch prefix is asserted (the statement demands Abort and close)",
        ],
        selftest=selftest,
    )
