"""C01 -- datagram codec: differential against the independent RFC 7252 section 3 codec (vlib.refcodec),
round trip, and exception class of the parser on arbitrary bytes."""

import asyncio
import socket

from hypothesis import strategies as st

from vlib import refcodec as R
from vlib.runner import CheckSpec, Outcome, Sub, V, exc_key

ID = "C01"
LEVEL = "exploration"

BOUNDARY = [0, 1, 12, 13, 14, 268, 269, 270]
KNOWN_NUMBERS = sorted(R.FORMATS)


# --------------------------------------------------------------------------------------
# strategies


def _numbers():
    return st.one_of(
        st.sampled_from(KNOWN_NUMBERS),
        st.sampled_from(KNOWN_NUMBERS),
        st.integers(0, 40),
        st.sampled_from([12, 13, 14, 268, 269, 270, 300, 65000, 65535]),
        st.integers(0, 65535),
    )


def _lengths():
    return st.one_of(
        st.integers(0, 16),
        st.integers(0, 16),
        st.sampled_from([12, 13, 14, 268, 269, 270]),
        st.integers(0, 300),
    )


def _value_for(number, big):
    fmt = R.FORMATS.get(number, "opaque")
    if fmt == "uint":
        if number in (12, 17):
            return st.one_of(st.integers(0, 65535), st.sampled_from([0, 40, 60, 255, 256, 65535]))
        return st.one_of(st.integers(0, 300), st.sampled_from([0, 255, 256, 65535, 65536, 2**24 - 1, 2**32, 2**64]), st.integers(0, 2**64))
    if fmt == "string":
        return st.one_of(st.text(max_size=20), st.text(alphabet=st.characters(codec="utf-8"), max_size=300), st.text(alphabet="a", min_size=0, max_size=300))
    if fmt == "block":
        return st.tuples(st.one_of(st.integers(0, 20), st.integers(0, 2**20 - 1)), st.booleans(), st.integers(0, 7)).map(list)
    # opaque / empty
    lens = _lengths()
    if big:
        lens = st.one_of(lens, st.sampled_from([65803, 65804]))
    return lens.flatmap(lambda n: st.binary(min_size=n, max_size=n) if n < 400 else st.just(b"\xa5" * n))


@st.composite
def _message(draw):
    """G1: a message in aiocoap's own terms (typed option values)"""
    nopt = draw(st.one_of(st.integers(0, 3), st.integers(0, 12)))
    big = draw(st.integers(0, 60)) == 0
    options = []
    for _ in range(nopt):
        n = draw(_numbers())
        options.append([n, draw(_value_for(n, big))])
    payload = draw(st.one_of(st.just(b""), st.binary(min_size=1, max_size=1), st.binary(max_size=40), st.integers(1000, 2100).map(lambda n: b"\xff" * n)))
    return {
        "type": draw(st.integers(0, 3)),
        "code": draw(st.one_of(st.integers(0, 255), st.sampled_from([0, 1, 2, 3, 4, 5, 69, 132, 160, 255]))),
        "mid": draw(st.one_of(st.integers(0, 65535), st.sampled_from([0, 255, 256, 65535]))),
        "token": draw(st.binary(max_size=8)),
        "options": options,
        "payload": payload,
    }


@st.composite
def _wire_fields(draw, max_number=65535):
    """G2: RFC-well-formed datagram described at the wire level (raw option values, delta coded)"""
    nopt = draw(st.one_of(st.integers(0, 3), st.integers(0, 10)))
    options = []
    number = 0
    for _ in range(nopt):
        delta = draw(st.one_of(st.integers(0, 14), st.sampled_from(BOUNDARY + [65535 - 269, 65535]), st.sampled_from([k for k in KNOWN_NUMBERS]), st.integers(0, 2000)))
        if number + delta > max_number:
            delta = 0
        number += delta
        fmt = R.FORMATS.get(number, "opaque")
        if fmt == "string":
            raw = draw(st.one_of(st.text(max_size=12), st.text(max_size=300))).encode("utf-8")
        elif fmt in ("uint", "block"):
            # includes non-minimal encodings (leading zero bytes) and over-long values
            raw = draw(st.one_of(st.binary(max_size=4), st.binary(max_size=9), st.sampled_from([b"", b"\x00", b"\x00\x00", b"\x00\x01", b"\xff" * 8])))
        else:
            n = draw(_lengths())
            raw = draw(st.binary(min_size=n, max_size=n))
        options.append([number, raw])
    code = draw(st.one_of(st.integers(1, 255), st.sampled_from([1, 2, 3, 4, 69, 132, 160])))
    payload = draw(st.one_of(st.just(b""), st.binary(min_size=1, max_size=30), st.integers(1000, 1300).map(lambda n: b"\x00" * n)))
    return {
        "type": draw(st.integers(0, 3)),
        "code": code,
        "mid": draw(st.integers(0, 65535)),
        "token": draw(st.binary(max_size=8)),
        "options": options,
        "payload": payload,
    }


_mutation = st.tuples(st.sampled_from(["set", "trunc", "ins", "del", "flip"]), st.integers(0, 10**6), st.integers(0, 255)).map(list)


@st.composite
def _arbitrary(draw):
    kind = draw(st.sampled_from(["random", "mut", "mut", "mut", "hdr"]))
    if kind == "random":
        return {"kind": kind, "data": draw(st.binary(max_size=64))}
    if kind == "hdr":
        # a plausible header followed by random option-ish bytes
        tkl = draw(st.integers(0, 15))
        head = bytes([0x40 | (draw(st.integers(0, 3)) << 4) | tkl, draw(st.integers(0, 255))]) + draw(st.binary(min_size=2, max_size=2))
        return {"kind": kind, "data": head + draw(st.binary(max_size=40))}
    base = draw(_wire_fields(max_number=70000))
    muts = draw(st.lists(_mutation, min_size=1, max_size=3))
    return {"kind": kind, "base": base, "muts": muts}


def apply_mutations(data, muts):
    data = bytearray(data)
    for op, pos, val in muts:
        if op == "trunc":
            data = data[: pos % (len(data) + 1)]
            continue
        if op == "ins":
            data.insert(pos % (len(data) + 1), val)
            continue
        if not data:
            continue
        p = pos % len(data)
        if op == "set":
            data[p] = val
        elif op == "del":
            del data[p]
        elif op == "flip":
            data[p] ^= 1 << (val % 8)
    return bytes(data)


# --------------------------------------------------------------------------------------
# the code under test, wrapped


def _norm_value(v):
    if isinstance(v, tuple):  # BlockwiseTuple
        return [int(v[0]), bool(v[1]), int(v[2])]
    if isinstance(v, bool):
        return v
    if isinstance(v, int):
        return int(v)
    return v


def observed_fields(m):
    return {
        "type": int(m.mtype),
        "code": int(m.code),
        "mid": int(m.mid),
        "token": bytes(m.token),
        "options": [[int(o.number), _norm_value(o.value)] for o in m.opt.option_list()],
        "payload": bytes(m.payload),
    }


def reencodable(m):
    """A parsed message as something encode() accepts (encode asserts direction OUTGOING)."""
    from aiocoap.message import Direction

    m.direction = Direction.OUTGOING
    return m


def build_message(f):
    from aiocoap import Message
    from aiocoap.numbers.optionnumbers import OptionNumber
    from aiocoap.numbers.types import Type

    m = Message(code=f["code"], payload=f["payload"])
    m.mtype = Type(f["type"])
    m.mid = f["mid"]
    m.token = f["token"]
    for n, v in f["options"]:
        if R.FORMATS.get(n) == "block":
            v = tuple(v)
        m.opt.add_option(OptionNumber(n).create_option(value=v))
    return m


def _ref_raw(n, v):
    fmt = R.FORMATS.get(n, "opaque")
    if fmt == "block":
        return R.block_bytes(*v)
    return R.value_bytes(n, v)


# --------------------------------------------------------------------------------------
# oracles


def run_roundtrip(f):
    from aiocoap import Message

    vio = []
    expected_opts = sorted(f["options"], key=lambda o: o[0])  # stable
    ref_fields = dict(f, options=[(n, _ref_raw(n, v)) for n, v in expected_opts])
    ref_bytes = R.encode(ref_fields)
    labels = []
    ext_used = any((n >= 13) for n, _ in f["options"]) or any(len(r) >= 13 for _, r in ref_fields["options"])
    try:
        m = build_message(f)
        data = m.encode()
    except Exception as e:
        return Outcome([V("C01/encode-raises/" + exc_key(e), "encode of %r raised %r" % (f, e))], ["encode-raises"], ext_used)
    if data != ref_bytes:
        vio.append(V("C01/encode-differs", "aiocoap %s\nRFC     %s" % (data.hex()[:400], ref_bytes.hex()[:400])))
    try:
        back = Message.decode(data)
        got = observed_fields(back)
    except Exception as e:
        vio.append(V("C01/decode-own-output-raises/" + exc_key(e), repr(e)))
        return Outcome(vio, ["decode-raises"], ext_used)
    want = dict(f, options=[[n, v] for n, v in expected_opts])
    for k in ("type", "code", "mid", "token", "payload"):
        if got[k] != want[k]:
            vio.append(V("C01/roundtrip-field/" + k, "%r != %r" % (got[k], want[k])))
    if got["options"] != want["options"]:
        vio.append(V("C01/roundtrip-options", "got %r\nwant %r" % (got["options"][:8], want["options"][:8])))
    labels.append("nopt=%s" % min(len(f["options"]), 4))
    if any(len(r) >= 269 for _, r in ref_fields["options"]):
        labels.append("ext14-length")
    if ext_used:
        labels.append("extended-field")
    if len({n for n, _ in f["options"]}) < len(f["options"]):
        labels.append("repeated-number")
    return Outcome(vio, labels, ext_used)


def run_wellformed(f):
    from aiocoap import Message

    vio = []
    ref_fields = dict(f, options=[(n, r) for n, r in f["options"]])
    data = R.encode(ref_fields)
    # sanity of the reference itself: its own decoder must accept and agree
    assert R.decode(data)["options"] == ref_fields["options"]
    want_opts = []
    for n, r in f["options"]:
        kind, val = R.interpret(n, r)
        if kind == "block":
            val = [val[0], val[1], val[2]]
        want_opts.append([n, val])
    ext_used = False
    prev = 0
    for n, r in f["options"]:
        if n - prev >= 13 or len(r) >= 13:
            ext_used = True
        prev = n
    try:
        m = Message.decode(data)
        got = observed_fields(m)
    except Exception as e:
        return Outcome([V("C01/wellformed-rejected/" + exc_key(e), "%s -> %r" % (data.hex()[:300], e))], ["rejected"], ext_used)
    for k in ("type", "code", "mid", "token", "payload"):
        if got[k] != f[k]:
            vio.append(V("C01/wellformed-field/" + k, "%r != %r for %s" % (got[k], f[k], data.hex()[:200])))
    if got["options"] != want_opts:
        vio.append(V("C01/wellformed-options", "got %r\nwant %r" % (got["options"][:8], want_opts[:8])))
    labels = ["nopt=%s" % min(len(f["options"]), 4)]
    if ext_used:
        labels.append("extended-field")
    return Outcome(vio, labels, ext_used)


def _parse_outcome(data):
    """-> ('unparsable',) | ('message', fields) | ('exception', e)"""
    from aiocoap import Message, error

    try:
        m = Message.decode(data)
    except error.UnparsableMessage:
        return ("unparsable", None)
    except Exception as e:
        return ("exception", e)
    return ("message", m)


def check_bytes(data, vio):
    """O3 on one byte string; returns outcome kind"""
    from aiocoap import Message

    kind, m = _parse_outcome(data)
    if kind == "exception":
        vio.append(V("C01/decode-raises/" + exc_key(m), "%s -> %r" % (data.hex()[:300], m)))
        return kind
    if kind == "unparsable":
        return kind
    try:
        f1 = observed_fields(m)
        again = reencodable(m).encode()
    except Exception as e:
        vio.append(V("C01/reencode-raises/" + exc_key(e), "%s parsed, but encode raised %r" % (data.hex()[:300], e)))
        return "message"
    try:
        m2 = Message.decode(again)
        f2 = observed_fields(m2)
        again2 = reencodable(m2).encode()
    except Exception as e:
        vio.append(V("C01/reparse-raises/" + exc_key(e), "%s -> %s -> %r" % (data.hex()[:200], again.hex()[:200], e)))
        return "message"
    if f1 != f2:
        vio.append(V("C01/parsed-message-does-not-roundtrip", "%s: %r != %r" % (data.hex()[:200], f1, f2)))
    if again2 != again:
        vio.append(V("C01/encode-not-idempotent", "%s vs %s" % (again.hex()[:200], again2.hex()[:200])))
    # whenever the reference accepts the datagram as well-formed (and its strings are UTF-8, numbers
    # assignable), the fields must agree with the reference's reading
    try:
        rf = R.decode(data)
        want = [[n, (lambda kv: list(kv[1]) if kv[0] == "block" else kv[1])(R.interpret(n, r))] for n, r in rf["options"]]
    except R.FormatError:
        return "message"
    if all(n <= 65535 for n, _ in want):
        for k in ("type", "code", "mid", "token", "payload"):
            if f1[k] != rf[k]:
                vio.append(V("C01/wellformed-field/" + k, "%r != %r for %s" % (f1[k], rf[k], data.hex()[:200])))
        if f1["options"] != want:
            vio.append(V("C01/wellformed-options", "got %r want %r" % (f1["options"][:8], want[:8])))
    return "message+ref"


_iface = None


class _StubManager:
    def __init__(self):
        self.dispatched = []

    def dispatch_message(self, m):
        self.dispatched.append(m)

    def dispatch_error(self, e, r):
        pass


def _transport_iface():
    """a real MessageInterfaceUDP6 with a stub manager (once per process)"""
    global _iface
    if _iface is None:
        import logging

        from aiocoap.transports.udp6 import MessageInterfaceUDP6

        async def make():
            return MessageInterfaceUDP6(bind=("::", 0, 0, 0), log=logging.getLogger("vp-c01"), loop=asyncio.get_running_loop())

        loop = asyncio.new_event_loop()
        try:
            _iface = loop.run_until_complete(make())
        finally:
            loop.close()
        _iface._ctx = _StubManager()
        logging.getLogger("vp-c01").setLevel(logging.CRITICAL)
    return _iface


_PKTINFO = socket.inet_pton(socket.AF_INET6, "::1") + (0).to_bytes(4, "little")


def check_transport(data, kind, vio):
    iface = _transport_iface()
    iface._ctx.dispatched.clear()
    try:
        iface.datagram_msg_received(data, [(socket.IPPROTO_IPV6, socket.IPV6_PKTINFO, _PKTINFO)], 0, ("::2", 5683, 0, 0))
    except Exception as e:
        vio.append(V("C01/transport-raises/" + exc_key(e), "%s -> %r escaped datagram_msg_received" % (data.hex()[:300], e)))
        return
    n = len(iface._ctx.dispatched)
    if kind == "unparsable" and n != 0:
        vio.append(V("C01/transport-dispatched-unparsable", data.hex()[:300]))
    if kind.startswith("message") and n != 1:
        vio.append(V("C01/transport-dropped-parsable", data.hex()[:300]))


def run_arbitrary(case):
    vio = []
    labels = [case["kind"]]
    nontrivial = False
    if case["kind"] in ("random", "hdr"):
        data = case["data"]
        kind = check_bytes(data, vio)
        nontrivial = kind.startswith("message") and len(data) > 4
    else:
        parent = R.encode(dict(case["base"], options=[(n, r) for n, r in case["base"]["options"]]))
        data = apply_mutations(parent, case["muts"])
        pk = _parse_outcome(parent)[0]
        kind = check_bytes(data, vio)
        nontrivial = data != parent and (kind.split("+")[0] != pk)
        if pk == "exception":
            check_bytes(parent, vio)
    labels.append(kind)
    check_transport(data, kind if kind != "exception" else "skip", vio)
    return Outcome(vio, labels, nontrivial)


def fuzz_one(data):
    """Atheris entry (E4): O3 on raw bytes, oracle inside"""
    vio = []
    kind = check_bytes(data, vio)
    check_transport(data, kind if kind != "exception" else "skip", vio)
    return vio, kind, kind.startswith("message") and len(data) > 4


def _atheris(tier, seed, known):
    import os

    from vlib import fuzz

    runs = {"quick": 30000, "thorough": 1500000}[tier]
    workers = {"quick": 2, "thorough": 16}[tier]
    return fuzz.run("checks.c01", runs, workers, seed, known, corpus=os.path.join(os.path.dirname(os.path.dirname(os.path.abspath(__file__))), "corpus", "c01"))


# ---- exhaustive sweeps -------------------------------------------------------------


def cases_extfield():
    for lo in range(0, 65805 + 300, 257):
        yield {"lo": lo, "hi": min(lo + 257, 65805 + 300)}
    yield {"nibbles": True}


def run_extfield(case):
    from aiocoap import error
    from aiocoap.options import _read_extended_field_value, _write_extended_field_value

    vio = []
    if case.get("nibbles"):
        # every nibble value x every 0/1/2-byte tail prefix behaviour
        for nib in range(16):
            for tail in (b"", b"\x00", b"\xff", b"\x00\x00", b"\x12\x34", b"\xff\xff", b"\xff\xff\x55"):
                try:
                    got = _read_extended_field_value(nib, tail)
                except error.UnparsableMessage:
                    got = "unparsable"
                except Exception as e:
                    vio.append(V("C01/extfield-read-raises/" + exc_key(e), "%d %r" % (nib, tail)))
                    continue
                if nib < 13:
                    want = (nib, tail)
                elif nib == 13:
                    want = (tail[0] + 13, tail[1:]) if len(tail) >= 1 else "unparsable"
                elif nib == 14:
                    want = (int.from_bytes(tail[:2], "big") + 269, tail[2:]) if len(tail) >= 2 else "unparsable"
                else:
                    want = "unparsable"
                if got != want:
                    vio.append(V("C01/extfield-read", "nibble %d tail %r: %r != %r" % (nib, tail, got, want)))
        return Outcome(vio, ["nibbles"], True)
    for value in range(case["lo"], case["hi"]):
        try:
            want = R.ext(value)
        except ValueError:
            want = None
        try:
            got = _write_extended_field_value(value)
        except ValueError:
            got = None
        except Exception as e:
            vio.append(V("C01/extfield-write-raises/" + exc_key(e), str(value)))
            continue
        if got != want:
            vio.append(V("C01/extfield-write/%s" % (value if value >= 65800 else "x"), "value %d: aiocoap %r, RFC %r" % (value, got, want)))
            continue
        if got is not None:
            back = _read_extended_field_value(got[0], got[1] + b"rest")
            if back != (value, b"rest"):
                vio.append(V("C01/extfield-roundtrip", "value %d -> %r -> %r" % (value, got, back)))
    return Outcome(vio, ["range"], case["hi"] > 13)


_TAILS = [
    b"",
    b"\x00",
    b"\x00\x00",
    b"\x12\x34",
    b"\x12\x34\xff",
    b"\x12\x34\xffp",
    b"\x12\x34tok",
    b"\x12\x34tokentok",
    b"\x12\x34tokentok\xb1a",
    b"\x12\x34tokentokXYZWVU\xffpayload",
    b"\x12\x34\xb1a\x01b\xff\x00",
    b"\x12\x34\xd0",
    b"\x12\x34\xd0\x00",
    b"\x12\x34\xe0\x00",
    b"\x12\x34\xe0\x00\x00",
    b"\x12\x34\xf0",
    b"\x12\x34\x0f",
    b"\x12\x34\x1f\x00",
    b"\x12\x34\x41\xff\xfe",  # ETag-numbered? no: delta 4 len 1 value ff, then fe
    b"\x12\x34\x31\xc3",  # Uri-Host with invalid UTF-8
    b"\x12\x34\xb2\xc3\xa4",  # Uri-Path valid UTF-8
    b"\x12\x34\xb2\xc3\x28",  # Uri-Path invalid UTF-8
    b"\x12\x34\xc1\x28\x51\x3c",
    b"\x12\x34\xd1\x0a\x05",  # Block2 (23) one byte
    b"\x12\x34\xd3\x0a\xff\xff\xff",
    b"\x12\x34\x00\x00\x00\x00",
    b"\x12\x34\xff\xff",
    b"\x12\x34" + b"\x10" * 16,
    b"\x12\x34\xee\xff\xff\xff\xff",
    b"\x12\x34\xe0\xff\xff",
    b"\x12\x34\x0e\xff\xff",
    b"\x12\x34\x0d\x00" + b"v" * 13,
    b"\x12\x34\x0d\x00" + b"v" * 12,
    b"\xff\xff\xff\xff\xff\xff\xff\xff\xff\xff\xff\xff",
    b"\x00\x01\x60",
    b"\x00\x01\x61\x01",
    b"\x00\x01\x62\x01\x00",
    b"\x00\x01\x63\x01\x00\x00",
    b"\x00\x01tokentok\x91\x09\x21\x01\xff\x01",
    b"\x00\x01" + bytes(range(1, 30)),
]


def cases_headers():
    for b0 in range(256):
        for ti in range(len(_TAILS)):
            yield {"b0": b0, "tail": ti}


def run_headers(case):
    vio = []
    kinds = set()
    tail = _TAILS[case["tail"]]
    for code in range(256):
        data = bytes([case["b0"], code]) + tail
        before = len(vio)
        kinds.add(check_bytes(data, vio))
        if len(vio) > before and len(vio) > 6:
            break
    return Outcome(vio, sorted(kinds), len(kinds) > 0 and kinds != {"unparsable"}, info={"datagrams": 256})


# --------------------------------------------------------------------------------------


def selftest():
    R.selftest()
    # oracle self-test: fabricated outcomes that must be flagged
    from aiocoap import Message

    f = {"type": 0, "code": 1, "mid": 7, "token": b"ab", "options": [[11, "x"], [11, "y"], [3, "h"]], "payload": b"p"}
    out = run_roundtrip(f)
    assert not out.violations, out.violations
    # a datagram whose parse differs from the reference reading must be flagged: simulate by
    # comparing against a deliberately wrong expectation
    f_bad = dict(f, options=[[11, "y"], [11, "x"], [3, "h"]])
    data = build_message(f).encode()
    got = observed_fields(Message.decode(data))
    assert got["options"] != sorted(f_bad["options"], key=lambda o: o[0])
    vio = []
    assert check_bytes(b"\x40\x01\x00\x00", vio) == "message+ref" and not vio
    assert check_bytes(b"\x40", vio) == "unparsable" and not vio
    assert apply_mutations(b"abc", [["trunc", 1, 0], ["ins", 1, 0x41]]) == b"aA"


RULE = (
    "roundtrip: Hypothesis builds messages (type, code, mid, token 0-8, unordered option list with format-legal "
    "values over known and unknown numbers, lengths around 12/13/268/269/65804, payload) -- oracle: encode == independent "
    "RFC 7252 s.3 encoder and decode gives back equal fields with options stably sorted. wellformed: wire-level "
    "generator of RFC-well-formed datagrams (non-minimal uints, unknown numbers, extended deltas) -- oracle: fields "
    "equal the reference decoder's reading. arbitrary: random bytes, plausible headers + noise, and 1-3 byte-level "
    "mutations (set/flip/insert/delete/truncate) of well-formed datagrams -- oracle: UnparsableMessage, or a message that "
    "re-encodes, re-parses field-equal and encodes idempotently; same bytes through MessageInterfaceUDP6.datagram_msg_received "
    "must not raise. atheris: the same byte-level oracle as a coverage-guided libFuzzer target. extfield/headers: finite sweeps. Non-trivial = roundtrip/wellformed case with >=1 extended (13/14) "
    "delta or length; mutation whose parse outcome class differs from its parent's; random bytes that parse into a "
    "message longer than the header; header sweep cell with at least one parsable datagram. Distinct = SHA-1 of the canonical JSON case."
)


def build(tier):
    subs = [
        Sub("roundtrip", run_roundtrip, strategy=_message, budget={"quick": 6000, "thorough": 450000}, max_wall={"quick": 50, "thorough": 3600}),
        Sub("wellformed", run_wellformed, strategy=_wire_fields, budget={"quick": 6000, "thorough": 450000}, max_wall={"quick": 50, "thorough": 3600}),
        Sub("arbitrary", run_arbitrary, strategy=_arbitrary, budget={"quick": 8000, "thorough": 600000}, max_wall={"quick": 50, "thorough": 3600}),
        Sub("atheris", run_arbitrary, strategy=_arbitrary, external=_atheris, note="coverage-guided (libFuzzer via Atheris) over raw datagrams with the round-trip / exception-class / reference-agreement oracle inside the target; half of the workers start from an empty corpus, half from 4 valid datagrams; skipped with a note if atheris is not installed"),
        Sub("extfield", run_extfield, cases=cases_extfield, exhaustive=True, note="_write/_read_extended_field_value over 0..66104 and all 16 nibbles x 7 tails"),
        Sub("headers", run_headers, cases=cases_headers, exhaustive=True, note="all 65536 (first byte, code) pairs x %d fixed tails" % len(_TAILS)),
    ]
    return CheckSpec(
        subs,
        RULE,
        assumptions=[
            "vlib/refcodec.py is a correct reading of RFC 7252 section 3 (self-tested against the byte strings of tests/test_encoding.py)",
            "option value formats are those of RFC 7252 5.10 / 7959 / 7641 / 7967 / 8613 / 9175 / 8768 as tabulated in refcodec.FORMATS",
            "option numbers above 65535 and string options that are not UTF-8 are treated as not well-formed (only the round-trip-or-UnparsableMessage clause applies)",
            "lone surrogates are not generated for string options (cannot be encoded as UTF-8)",
        ],
        selftest=selftest,
    )
