"""C02 -- response/request matching and exactly-once completion under loss, duplication, delay, reordering,
forged responses, transport errors, concurrency and shutdown."""

from hypothesis import strategies as st

from vlib import refcodec as R
from vlib.runner import CheckSpec, Outcome, Sub, V
from vlib.simnet import ReqLog, SimNet, fate_strategy

ID = "C02"
LEVEL = "exploration"

CLIENT = ("fd00::1", 5683)
SERVERS = [("fd00::a", 5683), ("fd00::b", 5683), ("fd00::a", 7000)]  # the third shares the IP of the first
STRANGER = ("fd00::99", 5683)
SCRIPTS = ["piggy", "sep_con", "sep_non", "con_noack", "non", "rst", "silent", "piggy_wrongtoken", "non_wrongtoken"]


def run_case(case, want_trace=False):
    from aiocoap import GET, Message, Unreliable, error
    from aiocoap.numbers.constants import TransportTuning

    net = SimNet(fates=case.get("fates", ()), rng_seed=case.get("rng", 0), token0=case.get("token0", 0))
    vio = []
    labels = set()
    try:
        client = net.add_context("client", *CLIENT)
        reqs = case["requests"]

        class Fast(TransportTuning):
            ACK_TIMEOUT = 1.0
            ACK_RANDOM_FACTOR = 1.0
            MAX_RETRANSMIT = 2

        class FastNon(Fast):
            reliability = False

        def make_handler(si):
            seen = {}

            def handler(peer, t, src, f, raw):
                if f is None or f["code"] == 0 or (f["code"] >> 5) != 0:
                    return
                path = R.opts(f, R.O_URI_PATH)
                if not path or not path[0].startswith("r"):
                    return
                k = int(path[0][1:])
                spec = reqs[k]
                first = k not in seen
                seen[k] = seen.get(k, 0) + 1
                if not first and not spec.get("every", False):
                    return
                script = spec["script"]
                d1, d2 = spec.get("d1", 0.0), spec.get("d2", 0.0)
                payload = b"resp-%d-%d" % (k, si)
                tok = f["token"]
                if script.endswith("wrongtoken"):
                    tok = (bytes([0xEE]) + tok) if len(tok) < 8 else bytes([tok[0] ^ 0xFF]) + tok[1:]
                reps = 1 + spec.get("extra", 0)
                if script in ("piggy", "piggy_wrongtoken"):
                    for _ in range(reps):
                        peer.send(src, R.msg(R.ACK, R.CONTENT, f["mid"], tok, payload=payload), d1)
                elif script in ("sep_con", "sep_non"):
                    if f["type"] == R.CON:
                        peer.send(src, R.msg(R.ACK, 0, f["mid"]), d1)
                    typ = R.CON if script == "sep_con" else R.NON
                    mid = peer.next_mid()
                    for _ in range(reps):
                        peer.send(src, R.msg(typ, R.CONTENT, mid, tok, payload=payload), d1 + d2)
                elif script == "con_noack":
                    mid = peer.next_mid()
                    for _ in range(reps):
                        peer.send(src, R.msg(R.CON, R.CONTENT, mid, tok, payload=payload), d1)
                elif script in ("non", "non_wrongtoken"):
                    mid = peer.next_mid()
                    for _ in range(reps):
                        peer.send(src, R.msg(R.NON, R.CONTENT, mid, tok, payload=payload), d1)
                elif script == "rst":
                    peer.send(src, R.msg(R.RST, 0, f["mid"]), d1)

            return handler

        servers = [net.add_raw("s%d" % i, ip, port, handler=make_handler(i)) for i, (ip, port) in enumerate(SERVERS)]
        log = ReqLog(net)
        items = {}

        def start(k):
            spec = reqs[k]
            m = Message(code=GET, transport_tuning=(Fast() if spec["con"] else FastNon()))
            m.opt.uri_path = ("r%d" % k,)
            m.remote = client.remote(servers[spec["server"]])
            items[k] = log.start(client, m, tag=k)

        for k, spec in enumerate(reqs):
            net.at(spec["t"], start, k)

        def wire_token(k):
            """token of request k as first seen on the wire (None if not transmitted yet)"""
            for w in net.wire:
                if w["src"] != CLIENT:
                    continue
                try:
                    f = R.decode(w["data"])
                except R.FormatError:
                    continue
                if (f["code"] >> 5) == 0 and f["code"] != 0 and R.opts(f, R.O_URI_PATH) == ["r%d" % k]:
                    return f["token"], w["t"], f["mid"]
            return None

        forged = []

        def forge(n, fg):
            if fg["token"] == "random":
                tok = bytes([0xEE, n, 0x55])
            else:
                wt = wire_token(fg["token"] % len(reqs))
                if wt is None:
                    return
                tok = wt[0]
            src = STRANGER if fg["src"] == "stranger" else SERVERS[fg["src"] % len(SERVERS)]
            typ = {"con": R.CON, "non": R.NON, "ack": R.ACK}[fg["type"]]
            if fg.get("mid") == "request" and fg["token"] != "random":
                mid = wire_token(fg["token"] % len(reqs))[2]
            else:
                mid = 0x7000 + n
            data = R.msg(typ, R.CONTENT, mid, tok, payload=b"forged-%d" % n)
            forged.append(data)
            net.inject(src, CLIENT, data, 0.0)

        for n, fg in enumerate(case.get("forgeries", [])):
            net.at(fg["t"], forge, n, fg)
        for er in case.get("errors", []):
            net.at(er["t"], net.inject_error, client, SERVERS[er["server"] % len(SERVERS)])
        if case.get("token_burn"):
            # a context that has meanwhile handed out that many other tokens (the history of a long-running client,
            # fast-forwarded through the allocator's own interface)
            def burn(n):
                for _ in range(n):
                    client.tman.next_token()

            net.at(case["token_burn"][0], burn, case["token_burn"][1])

        # --- observation of state around every delivery to the client
        snaps = []

        def before(d):
            if d["to"] != "client":
                return
            d["done_before"] = {k for k, it in items.items() if it.get("fut") is not None and it["fut"].done()}
            d["registered_before"] = set(items)

        def after(d):
            if d["to"] != "client":
                return
            d["done_after"] = {k for k, it in items.items() if it.get("fut") is not None and it["fut"].done()}
            snaps.append(d)

        net.before_delivery = before
        net.after_delivery = after

        t_shutdown = case.get("shutdown", 120.0 if max(r["t"] for r in reqs) < 20 else 250.0)
        net.run_until(t_shutdown)
        net.before_delivery = net.after_delivery = None
        net.shutdown_context(client)
        net._contexts.remove(client)
        net.run_until(t_shutdown + 300)

        # ------------------------------ oracle ------------------------------------
        tokens = {}
        for k in range(len(reqs)):
            wt = wire_token(k)
            if wt is not None:
                tokens[k] = wt
        for d in snaps:
            try:
                f = R.decode(d["data"])
            except R.FormatError:
                f = None
            newly = d["done_after"] - d["done_before"]
            sent = net.wire[d["wire_before"] : d["wire_after"]]
            # a reply (ACK/RST) that the kernel refused to send during this delivery fails every request to that remote:
            # those completions are caused by the transport error, not by the datagram
            refused_to = {w["dst"] for w in sent if w.get("refused")}
            if refused_to:
                for k in list(newly):
                    if SERVERS[reqs[k]["server"]] in refused_to and ReqLog.outcome(items[k])[0] == "exception":
                        newly.discard(k)
            sent_f = []
            for w in sent:
                if w["src"] == CLIENT:
                    try:
                        sent_f.append((w, R.decode(w["data"])))
                    except R.FormatError:
                        pass
            if f is None or f["code"] == 0 or (f["code"] >> 5) in (0, 1, 3, 6, 7):
                # not a response: may complete requests only by failing them (RST), never with a result
                for k in newly:
                    if ReqLog.outcome(items[k])[0] == "result":
                        vio.append(V("C02/result-from-non-response", "request %d got a result while %s was delivered" % (k, d["data"].hex()[:60])))
                continue
            # candidates: transmitted, not yet finished, same token, sent to the datagram's source
            cands = [k for k in tokens if k in d["registered_before"] and k not in d["done_before"] and tokens[k][0] == f["token"] and SERVERS[reqs[k]["server"]] == d["src"] and tokens[k][1] <= d["t"]]
            typ = f["type"]
            answers = [(w, g) for (w, g) in sent_f if g["code"] == 0 and g["mid"] == f["mid"] and w["dst"] == d["src"]]
            rsts = [a for a in answers if a[1]["type"] == R.RST]
            acks = [a for a in answers if a[1]["type"] == R.ACK]
            if cands:
                labels.add("matched")
                if len(cands) > 1:
                    vio.append(V("C02/duplicate-token", "requests %r outstanding to %s with the same token %s" % (cands, d["src"], f["token"].hex())))
                done_now = [k for k in newly if k in cands]
                if d["src"] in refused_to and not done_now:
                    # the ACK released a queued CON whose transmission the kernel refused: the transport error for this remote
                    # reaches the request before its response is looked at -- a library error is an allowed outcome
                    labels.add("response-overtaken-by-send-error")
                elif len(done_now) != 1:
                    vio.append(V("C02/matching-response-not-delivered", "response %s for request(s) %r: completed now %r" % (R.describe(f), cands, sorted(newly))))
                else:
                    k = done_now[0]
                    kind, val = ReqLog.outcome(items[k])
                    if kind != "result":
                        vio.append(V("C02/matching-response-gives-" + kind, repr(val)))
                    elif bytes(val.payload) != f["payload"] or bytes(val.token) != f["token"] or int(val.code) != f["code"] or tuple(val.remote.sockaddr[:2]) != d["src"]:
                        vio.append(V("C02/delivered-message-differs", "%r vs datagram %s" % (val, R.describe(f))))
                for k in newly - set(cands):
                    vio.append(V("C02/response-completes-foreign-request", "datagram %s from %s completed request %d (token %s to %s)" % (R.describe(f), d["src"], k, tokens.get(k, (b"?",))[0].hex(), SERVERS[reqs[k]["server"]])))
                if typ == R.CON and rsts:
                    vio.append(V("C02/rst-for-matched-response", R.describe(f)))
                if typ == R.CON and len(acks) != 1:
                    vio.append(V("C02/matched-con-response-not-acked", "%d ACKs" % len(acks)))
            else:
                labels.add("unmatched-" + ["con", "non", "ack"][typ] if typ < 3 else "unmatched-rst")
                for k in newly:
                    vio.append(V("C02/unmatched-response-delivered", "datagram %s from %s (no outstanding request with that token to that endpoint) completed request %d -> %r" % (R.describe(f), d["src"], k, ReqLog.outcome(items[k]))))
                if typ == R.CON:
                    if len(rsts) != 1:
                        vio.append(V("C02/unmatched-con-response-not-reset", "%d RSTs for %s from %s" % (len(rsts), R.describe(f), d["src"])))
                    if acks:
                        vio.append(V("C02/unmatched-con-response-acked", R.describe(f)))
                elif answers:
                    vio.append(V("C02/unmatched-non-or-ack-answered", R.describe(f)))

        # every future exactly once, with a matching response or a library error
        for k, it in items.items():
            kind, val = ReqLog.outcome(it)
            labels.add("outcome-" + kind)
            if kind == "pending":
                vio.append(V("C02/request-never-completes", "request %d (%r) still pending after shutdown" % (k, reqs[k])))
            elif kind in ("cancelled", "raised"):
                vio.append(V("C02/request-" + kind, "request %d: %r" % (k, val)))
            elif kind == "exception":
                if not isinstance(val, error.Error):
                    vio.append(V("C02/non-library-error/" + type(val).__name__, "request %d: %r" % (k, val)))
            else:
                # a result must be justified by a delivery from the destination with the token at the completion instant
                tok = tokens.get(k)
                ok = False
                for d in snaps:
                    if k in (d["done_after"] - d["done_before"]) and d["src"] == SERVERS[reqs[k]["server"]]:
                        try:
                            f = R.decode(d["data"])
                        except R.FormatError:
                            continue
                        if tok and f["token"] == tok[0] and f["payload"] == bytes(val.payload):
                            ok = True
                if not ok:
                    vio.append(V("C02/result-without-matching-delivery", "request %d -> %r" % (k, val)))
            if it["done_calls"] > 1:
                vio.append(V("C02/completed-twice", "request %d" % k))
        # a request datagram that the kernel refused to send: the error is reported for that remote, so the request fails then
        # and there (it must not hang until somebody shuts the context down)
        for w in net.wire:
            if not w.get("refused") or w["src"] != CLIENT:
                continue
            try:
                f = R.decode(w["data"])
            except R.FormatError:
                continue
            p_ = R.opts(f, R.O_URI_PATH)
            if not (1 <= f["code"] < 32 and p_ and p_[0].startswith("r")):
                continue
            k = int(p_[0][1:])
            it = items.get(k)
            if it is None:
                continue
            kind, val = ReqLog.outcome(it)
            if it["t_done"] is None or it["t_done"] > w["t"] + 1e-6:
                vio.append(V("C02/request-hangs-after-refused-transmission", "request %d: sendmsg refused at %.4f, future %s at %s (%r)" % (k, w["t"], kind, it["t_done"], val)))
        # tokens of simultaneously outstanding requests to one endpoint differ
        ks = sorted(tokens)
        for i, a in enumerate(ks):
            for b in ks[i + 1 :]:
                if reqs[a]["server"] != reqs[b]["server"] or tokens[a][0] != tokens[b][0]:
                    continue
                ea = items[a]["t_done"] if items[a]["t_done"] is not None else float("inf")
                eb = items[b]["t_done"] if items[b]["t_done"] is not None else float("inf")
                if tokens[a][1] < eb and tokens[b][1] < ea:
                    vio.append(V("C02/duplicate-token", "requests %d and %d outstanding together to %s with token %s" % (a, b, SERVERS[reqs[a]["server"]], tokens[a][0].hex())))
        for t, m, e, exc in net.loop_exceptions:
            vio.append(V("C02/loop-exception/" + type(exc).__name__, "%s %s at %.3f" % (m, e, t)))
        for t, lvl, name, msg in net.logs:
            if lvl >= 40:
                labels.add("error-logged")  # informational: the statement does not speak about logs
        # classification
        starts = sorted((r["t"], k) for k, r in enumerate(reqs))
        overlap = False
        for k, it in items.items():
            for j, jt in items.items():
                if j != k and it["t_call"] <= jt["t_call"] and (it["t_done"] is None or it["t_done"] > jt["t_call"]):
                    overlap = True
        faulty = any(f[0] != "deliver" for f in case.get("fates", [])) or bool(case.get("forgeries")) or bool(case.get("errors"))
        if any(w.get("refused") for w in net.wire):
            labels.add("sendmsg-refused")
        if overlap:
            labels.add("overlap")
        if case.get("forgeries"):
            labels.add("forgery")
        if case.get("errors"):
            labels.add("icmp")
        info = {"trace": net.trace()} if (want_trace or vio) else None
        return Outcome(vio, sorted(labels), overlap and faulty, info)
    finally:
        for ep in list(net._contexts):
            try:
                net.shutdown_context(ep)
            except Exception:
                pass
        net.close()


DELAYS = [0.0, 0.001, 0.05, 0.15, 0.9, 1.0, 1.1, 2.5, 5.0]


@st.composite
def _case(draw):
    n = draw(st.integers(1, 6))
    reqs = []
    for _ in range(n):
        r = {
            # mostly concurrent; sometimes long after earlier requests have run into their time-outs
            "t": draw(st.sampled_from([0.0, 0.0, 0.001, 0.5, 1.0, 2.0, 5.0, 0.0, 0.001, 0.5, 1.0, 2.0, 5.0, 50.0, 100.0, 101.0])),
            "server": draw(st.integers(0, 2)),
            "con": draw(st.booleans()),
            "script": draw(st.sampled_from(SCRIPTS)),
            "d1": draw(st.sampled_from(DELAYS)),
            "d2": draw(st.sampled_from(DELAYS)),
            "extra": draw(st.sampled_from([0, 0, 1, 2])),
            "every": draw(st.booleans()),
        }
        reqs.append(r)
    forgeries = draw(
        st.lists(
            st.fixed_dictionaries(
                {
                    "t": st.sampled_from([0.0005, 0.002, 0.01, 0.5, 0.999, 1.002, 2.0, 3.5, 6.0, 20.0]),
                    "src": st.one_of(st.just("stranger"), st.integers(0, 2)),
                    "token": st.one_of(st.just("random"), st.integers(0, 5)),
                    "type": st.sampled_from(["con", "non", "ack"]),
                    "mid": st.sampled_from(["fresh", "request"]),
                }
            ),
            max_size=6,
        )
    )
    errors = draw(st.lists(st.fixed_dictionaries({"t": st.sampled_from([0.0005, 0.01, 0.5, 1.5, 4.0]), "server": st.integers(0, 2)}), max_size=2))
    fates = draw(st.lists(st.one_of(fate_strategy(delays=[0.001, 0.05, 0.15, 1.0, 2.5, 10.0]), fate_strategy(delays=[0.001, 0.05, 0.15, 1.0, 2.5, 10.0]), fate_strategy(delays=[0.001, 0.05, 1.0]), st.sampled_from([["senderr", 101], ["senderr", 13]])), max_size=14))
    if draw(st.integers(0, 3)) == 0:
        # the kernel refuses one of the first transmissions (typically a request's very first datagram)
        fates.insert(min(len(fates), draw(st.integers(0, 3))), ["senderr", draw(st.sampled_from([101, 13, 1]))])
    case = {"requests": reqs, "forgeries": forgeries, "errors": errors, "fates": fates, "rng": draw(st.integers(0, 999)), "token0": draw(st.sampled_from([0, 0, 254, 65534, 2**64 - 2]))}
    if draw(st.integers(0, 3)) == 0:
        case["token_burn"] = [draw(st.sampled_from([0.0003, 0.4, 0.9, 1.5])), draw(st.sampled_from([255, 256, 65535, 65535, 65536, 65534]))]
    if draw(st.integers(0, 2)) == 0:
        case["shutdown"] = draw(st.sampled_from([0.0005, 0.5, 1.0005, 3.0, 30.0]))
    return case


def selftest():
    # the oracle must be able to fail: make the token manager match on token only
    import aiocoap.tokenmanager as tm

    orig = tm.TokenManager.process_response

    def bad(self, response):
        for key in list(self.outgoing_requests or {}):
            if key[0] == response.token:
                response.remote = key[1]
        return orig(self, response)

    tm.TokenManager.process_response = bad
    try:
        out = run_case(
            {
                "requests": [{"t": 0.0, "server": 0, "con": True, "script": "silent", "d1": 0, "d2": 0, "extra": 0, "every": False}],
                "forgeries": [{"t": 0.5, "src": "stranger", "token": 0, "type": "non", "mid": "fresh"}],
                "errors": [],
                "fates": [],
                "rng": 1,
                "token0": 0,
            }
        )
    finally:
        tm.TokenManager.process_response = orig
    assert out.violations, "oracle cannot fail"


RULE = (
    "1-6 concurrent CON/NON requests from a real aiocoap client context to 3 scripted raw servers (two share an IP, differ in port) on the "
    "simulated net: per request a server script (piggybacked / empty ACK + separate CON or NON / CON without ACK / NON / RST / silence / responses "
    "with a wrong token; delays 0-5 s; responses repeated 0-2x; reaction to every copy or the first), per-datagram fates (drop / delay / duplicate => "
    "reordering, or sendmsg() refused by the kernel and reported synchronously through error_received), 0-6 forged responses (source = right server, other server, same IP other port, stranger; token = that of a request as seen on the wire "
    "or random; CON/NON/ACK; MID fresh or the request's), 0-2 ICMP-style errors, optional early shutdown, initial token (incl. wrap-around). Oracle: state of "
    "all response futures is snapshotted before/after every delivery; a response datagram may complete exactly the one transmitted, unfinished request with its "
    "token and its source as destination, with a message equal to the datagram; anything else completes nothing and gets exactly one RST if CON / nothing otherwise; "
    "every future ends exactly once with such a result or an aiocoap.error.Error; tokens of overlapping requests to one endpoint differ; no loop exception / ERROR log. "
    "Non-trivial = >= 2 requests overlapping in time and >= 1 drop/duplicate/forgery/error; distinct = SHA-1 of the case."
)


def build(tier):
    return CheckSpec(
        [Sub("scenarios", run_case, strategy=_case, budget={"quick": 2500, "thorough": 300000}, max_wall={"quick": 60, "thorough": 3600})],
        RULE,
        assumptions=[
            "OS boundary replaced by vlib.simnet; a forged datagram from the right address with an outstanding token is a legitimate match (UDP cannot tell)",
            "requests to multicast destinations are excluded (matched by token only by design)",
        ],
        selftest=selftest,
    )
