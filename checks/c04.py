"""C04 -- request de-duplication by (source endpoint, message ID) within EXCHANGE_LIFETIME."""

import asyncio

from hypothesis import strategies as st

from vlib import refcodec as R
from vlib.runner import CheckSpec, Outcome, Sub, V
from vlib.simnet import SimNet

ID = "C04"
LEVEL = "exploration"

A = ("fd00::1", 5683)
PEERS = [("fd00::2", 5683), ("fd00::3", 5683), ("fd00::2", 6001)]
EL = 247.0
EPS = 0.01
HANDLERS = ["fast", "d0.05", "d0.5", "d5", "raise", "noresp"]
OFFSETS = [0.0, 0.01, 0.099, 0.101, 0.3, 1.0, 4.9, 5.1, 10.0, 246.0, 246.98, 247.02, 248.0, 500.0]


def make_site(net):
    import aiocoap
    from aiocoap import resource

    class Res(resource.Resource):
        def __init__(self, name, delay=0.0, fail=False, noresp=None):
            super().__init__()
            self.name, self.delay, self.fail, self.noresp = name, delay, fail, noresp
            self.count = 0

        async def needs_blockwise_assembly(self, request):
            return False

        async def _go(self, request):
            self.count += 1
            net.events.append((net.loop.time(), "handler", self.name, tuple(request.remote.sockaddr[:2]), int(request.mid), bytes(request.token)))
            if self.delay:
                await asyncio.sleep(self.delay)
            if self.fail:
                raise ValueError("boom")
            m = aiocoap.Message(payload=b"P-%s-%d" % (self.name.encode(), self.count))
            if self.noresp is not None:
                m.opt.no_response = self.noresp
            return m

        render_get = render_post = _go

    site = resource.Site()
    site.add_resource(["fast"], Res("fast"))
    site.add_resource(["d0.05"], Res("d0.05", 0.05))
    site.add_resource(["d0.5"], Res("d0.5", 0.5))
    site.add_resource(["d5"], Res("d5", 5.0))
    site.add_resource(["raise"], Res("raise", fail=True))
    site.add_resource(["noresp"], Res("noresp", noresp=26))
    return site


def run_case(case, want_trace=False):
    net = SimNet(rng_seed=case.get("rng", 0), mid0=case.get("mid0"))
    net._logger.setLevel(100)
    vio = []
    labels = set()
    try:
        a = net.add_context("A", *A, site=make_site(net))

        def peer_handler(peer, t, src, f, raw):
            if f and f["type"] == R.CON and f["code"] != 0 and (f["code"] >> 5) != 0:
                peer.send(src, R.msg(R.ACK, 0, f["mid"]))

        peers = [net.add_raw("p%d" % i, ip, port, handler=peer_handler) for i, (ip, port) in enumerate(PEERS)]
        arrivals = []  # (t_arrival, peer index, mid, type, delivery record filled later)
        reqs = case["requests"]
        # earlier non-request traffic of the same peer under the same message ID, more than EXCHANGE_LIFETIME
        # before the request: a ping or a stray confirmable response (both answered with RST).  It is not a
        # request, and even if it were remembered it would be forgotten by then.
        T0 = 1.0 + max([rq["pre"]["dt"] for rq in reqs if rq.get("pre")] + [0.0])
        for ri, rq in enumerate(reqs):
            typ = R.CON if rq["con"] else R.NON
            tok = bytes([0xA0 + ri])
            base = R.msg(typ, R.GET, rq["mid"], tok, [(R.O_URI_PATH, rq["handler"])])
            if rq.get("pre"):
                labels.add("earlier-" + rq["pre"]["kind"] + "-with-same-mid")
                pre = R.msg(R.CON, 0, rq["mid"]) if rq["pre"]["kind"] == "ping" else R.msg(R.CON, R.CONTENT, rq["mid"], b"\x77\x66", [], b"stray")
                net.at(T0 + rq["t"] - rq["pre"]["dt"], peers[rq["peer"]].send, A, pre)
            for ci, off in enumerate(rq["copies"]):
                data = base
                if ci and rq.get("alter") == ci:
                    data = R.msg(typ, R.POST, rq["mid"], tok + b"\x01", [(R.O_URI_PATH, rq["handler"])], b"x")
                net.at(T0 + rq["t"] + off, peers[rq["peer"]].send, A, data)

        for er in case.get("errors", []):
            # a transport error (ICMP) reported for a peer between copies: what was received from it is not forgotten
            net.at(T0 + er["t"], net.inject_error, a, PEERS[er["peer"]])
            labels.add("transport-error-between-copies")
        delivered = []

        def after(d):
            if d["to"] == "A":
                delivered.append(d)

        net.after_delivery = after
        horizon = T0 + max(rq["t"] + max(rq["copies"]) for rq in reqs) + 260.0
        net.run_until(horizon)

        # ------------------------------ oracle ------------------------------------
        handler_events = [e for e in net.events if e[1] == "handler"]
        groups = {}
        for d in delivered:
            try:
                f = R.decode(d["data"])
            except R.FormatError:
                continue
            if not (1 <= f["code"] < 32) or f["type"] not in (R.CON, R.NON):
                continue
            groups.setdefault((d["src"], f["mid"]), []).append((d, f))
        boundary = False
        early_dup = False
        for (src, mid), lst in groups.items():
            window_start = None
            expected_calls = 0
            ambiguous_calls = 0
            for d, f in lst:
                t = d["t"]
                out = [w for w in net.wire[d["wire_before"] : d["wire_after"]] if w["src"] == A]
                if window_start is None or t > window_start + EL + EPS:
                    if window_start is not None:
                        boundary = True
                        labels.add("after-lifetime")
                    window_start = t
                    expected_calls += 1
                    continue
                if t > window_start + EL - EPS:
                    ambiguous_calls += 1
                    boundary = True
                    labels.add("on-boundary")
                    continue
                # a duplicate inside the lifetime
                labels.add("dup-con" if f["type"] == R.CON else "dup-non")
                prev = [w for w in net.wire[: d["wire_before"]] if w["src"] == A and w["dst"] == src and w["t"] >= window_start - 1e-9]
                prev_acks = []
                for w in prev:
                    try:
                        g = R.decode(w["data"])
                    except R.FormatError:
                        continue
                    if g["type"] == R.ACK and g["mid"] == mid:
                        prev_acks.append(w)
                if f["type"] == R.NON:
                    if out:
                        vio.append(V("C04/non-duplicate-produces-output", "copy of NON mid=%d from %s at %.3f -> %s" % (mid, src, t, R.describe(R.decode(out[0]["data"])))))
                    continue
                if not prev_acks:
                    early_dup = True
                    labels.add("dup-before-ack")
                    if out:
                        vio.append(V("C04/duplicate-answered-before-any-ack", "copy of CON mid=%d at %.3f -> %s" % (mid, t, R.describe(R.decode(out[0]["data"])))))
                else:
                    if len(prev_acks) > 1 and any(w["data"] != prev_acks[0]["data"] for w in prev_acks):
                        pass  # several different ACKs would already be a C10 matter; compare with the latest
                    if R.decode(prev_acks[-1]["data"])["code"] == 0:
                        early_dup = True
                        labels.add("dup-after-empty-ack")
                    else:
                        labels.add("dup-after-piggyback")
                    if len(out) != 1:
                        vio.append(V("C04/duplicate-con-reply-count", "copy of CON mid=%d from %s at %.3f produced %d datagrams (ACK was sent before)" % (mid, src, t, len(out))))
                    elif out[0]["data"] != prev_acks[-1]["data"] or out[0]["dst"] != src:
                        vio.append(V("C04/duplicate-con-reply-differs", "copy of CON mid=%d at %.3f answered with %s, ACK sent before was %s" % (mid, t, R.describe(R.decode(out[0]["data"])), R.describe(R.decode(prev_acks[-1]["data"])))))
            calls = len([e for e in handler_events if e[3] == src and e[4] == mid])
            if not (expected_calls <= calls <= expected_calls + ambiguous_calls):
                vio.append(V("C04/handler-invocations", "(%s, mid %d): handler ran %d times, expected %d%s; arrivals at %s" % (src, mid, calls, expected_calls, "..%d" % (expected_calls + ambiguous_calls) if ambiguous_calls else "", [round(d["t"], 3) for d, _ in lst])))
        if len({m for (_, m) in groups}) < len(groups):
            labels.add("same-mid-different-peers")
        for t, msg, e, exc in net.loop_exceptions:
            vio.append(V("C04/loop-exception/" + type(exc).__name__, "%s %s" % (msg, e)))
        info = {"trace": net.trace()} if (want_trace or vio) else None
        return Outcome(vio, sorted(labels), early_dup or boundary, info)
    finally:
        for ep in list(net._contexts):
            try:
                net.shutdown_context(ep)
            except Exception:
                pass
        net.close()


@st.composite
def _case(draw):
    n = draw(st.integers(1, 4))
    pool = draw(st.sampled_from([[0x3000], [0x3000, 0x3001], [0, 0xFFFF]]))
    reqs = []
    for _ in range(n):
        ncopies = draw(st.integers(1, 5))
        offs = sorted(set([0.0] + [draw(st.sampled_from(OFFSETS)) for _ in range(ncopies - 1)]))
        rq = {
            "t": draw(st.sampled_from([0.0, 0.0, 0.02, 1.0, 3.0])),
            "peer": draw(st.integers(0, 2)),
            "mid": draw(st.sampled_from(pool)),
            "con": draw(st.sampled_from([True, True, False])),
            "handler": draw(st.sampled_from(HANDLERS)),
            "copies": offs,
        }
        if draw(st.integers(0, 5)) == 0:
            rq["pre"] = {"kind": draw(st.sampled_from(["ping", "stray-response"])), "dt": draw(st.sampled_from([248.0, 300.0, 1000.0]))}
        if len(offs) > 1 and draw(st.integers(0, 5)) == 0:
            rq["alter"] = draw(st.integers(1, len(offs) - 1))
        reqs.append(rq)
    # two logical requests from one peer with one MID would themselves be "copies"; keep them apart in time or merge by construction
    seen = {}
    for rq in reqs:
        key = (rq["peer"], rq["mid"])
        if key in seen:
            rq["mid"] = (rq["mid"] + 7 + len(seen)) & 0xFFFF
        seen[(rq["peer"], rq["mid"])] = True
    case = {"requests": reqs, "rng": draw(st.integers(0, 99))}
    if draw(st.integers(0, 3)) == 0:
        case["errors"] = draw(st.lists(st.fixed_dictionaries({"t": st.sampled_from([0.0005, 0.05, 0.5, 1.5, 3.5, 100.0]), "peer": st.integers(0, 2)}), min_size=1, max_size=2))
    m0 = draw(st.sampled_from([None, "pool", "pool", 0x2FFF, 0xFFFF]))
    if m0 == "pool":
        case["mid0"] = draw(st.sampled_from(pool))
    elif m0 is not None:
        case["mid0"] = m0
    return case


def selftest():
    import aiocoap.messagemanager as mm

    orig = mm.MessageManager._deduplicate_message
    mm.MessageManager._deduplicate_message = lambda self, message: False
    try:
        out = run_case({"requests": [{"t": 0.0, "peer": 0, "mid": 5, "con": True, "handler": "fast", "copies": [0.0, 1.0]}]})
    finally:
        mm.MessageManager._deduplicate_message = orig
    assert out.violations, "oracle cannot fail"


RULE = (
    "1-4 logical requests (CON/NON, handlers: fast / 50 ms / 500 ms / 5 s / raising / self-suppressing) from 3 raw peers (two share an IP) to a real "
    "aiocoap server context, each sent as 1-5 copies at offsets from {0, 10 ms, 99 ms, 101 ms, .3, 1, 4.9, 5.1, 10, 246, 246.98, 247.02, 248, 500 s}; "
    "MIDs from a tiny pool so that peers collide on MIDs; the server's own initial MID is part of the case (may equal a request's MID); a copy may differ in "
    "content while keeping the MID. Oracle per (source, MID): handler invocations == number of lifetime windows (copies within EL=247 s of the window's first "
    "arrival are duplicates, +-10 ms around the boundary either way); each duplicate CON inside the window is answered by exactly one datagram byte-identical to the "
    "ACK-typed datagram already sent for that (source, MID) or by nothing if none was sent yet; duplicate NONs produce nothing. Non-trivial = a duplicate arriving "
    "before the response exists / after the empty ACK, or a lifetime-boundary crossing. Distinct = SHA-1 of the case."
)


def build(tier):
    return CheckSpec(
        [Sub("scenarios", run_case, strategy=_case, budget={"quick": 2500, "thorough": 250000}, max_wall={"quick": 55, "thorough": 3600})],
        RULE,
        assumptions=["OS boundary replaced by vlib.simnet", "EXCHANGE_LIFETIME of the default TransportTuning (247 s)"],
        selftest=selftest,
    )
