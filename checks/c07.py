"""C07 -- observe client: freshness filter (RFC 7641 3.4) and exactly-once termination."""

import asyncio

from hypothesis import strategies as st

from vlib import refcodec as R
from vlib.runner import CheckSpec, Outcome, Sub, V
from vlib.simnet import ReqLog, SimNet, fate_strategy

ID = "C07"
LEVEL = "exploration"

X = ("fd00::1", 5683)
P = ("fd00::2", 5683)
MODES = ["plain-cb", "bw-cb", "plain-aiter", "bw-aiter"]
VALUES = [0, 1, 2, 3, 5, 2**23 - 1, 2**23, 2**23 + 1, 2**24 - 2, 2**24 - 1]
GAPS = [0.0, 0.0, 0.001, 0.001, 0.5, 1.0, 127.0, 129.0, 300.0]


def fresh(v1, t1, v2, t2):
    """RFC 7641 section 3.4, written from the RFC text"""
    return (v1 < v2 and v2 - v1 < 2**23) or (v1 > v2 and v1 - v2 > 2**23) or (t2 > t1 + 128.0)


def run_case(case, want_trace=False):
    from aiocoap import GET, Message, error

    net = SimNet(fates=case.get("fates", ()), rng_seed=case.get("rng", 0))
    net._logger.setLevel(100)
    vio = []
    labels = set()
    mode = case["mode"]
    try:
        x = net.add_context("X", *X)
        state = {"token": None, "sent_first": False}

        def handler(peer, t, src, f, raw):
            if f is None or f["code"] == 0 or (f["code"] >> 5) != 0:
                return
            if R.opts(f, R.O_URI_PATH) == ["bystander"]:
                return  # another, never answered request of the same application to the same server
            nblocks = case["first"].get("blocks", 0)
            b2 = R.opt(f, R.O_BLOCK2)
            if nblocks and b2 is not None and b2[0] > 0:
                # the client fetches the rest of a block-wise first response (16-byte blocks); meanwhile
                # notifications and terminators keep arriving on the observation's token
                n = b2[0]
                if n < nblocks:
                    peer.send(src, R.msg(R.ACK, R.CONTENT, f["mid"], f["token"], [(R.O_BLOCK2, (n, n < nblocks - 1, 0))], (b"first%02d........." % n)[:16]), case["first"].get("block_delay", 0.0))
                return
            if state["sent_first"]:
                return  # retransmission of the request: the (possibly delayed) first response is under way
            state["sent_first"] = True
            state["token"] = f["token"]
            first = case["first"]
            opts = [] if first["observe"] is None else [(R.O_OBSERVE, first["observe"])]
            code = first.get("code", R.CONTENT)
            if nblocks:
                peer.send(src, R.msg(R.ACK, code, f["mid"], f["token"], opts + [(R.O_BLOCK2, (0, True, 0))], b"first00........."))
            else:
                peer.send(src, R.msg(R.ACK, code, f["mid"], f["token"], opts, b"first"))
            tcur = 0.0
            for i, n in enumerate(case["notifications"]):
                tcur += n["gap"]
                typ = R.CON if n["con"] else R.NON
                if n["kind"] == "notify":
                    data = R.msg(typ, R.CONTENT, peer.next_mid(), f["token"], [(R.O_OBSERVE, n["value"])], b"n%d" % i)
                elif n["kind"] == "plain205":
                    data = R.msg(typ, R.CONTENT, peer.next_mid(), f["token"], [], b"n%d" % i)
                elif n["kind"] == "err404":
                    data = R.msg(typ, R.NOT_FOUND, peer.next_mid(), f["token"], [], b"n%d" % i)
                elif n["kind"] == "icmp":
                    net.loop.call_later(tcur, net.inject_error, x, P)
                    continue
                peer.send(src, data, tcur)

        p = net.add_raw("P", *P, handler=handler)
        log = ReqLog(net)
        delivered = []  # (t, kind, value)
        holder = {}

        def start():
            m = Message(code=GET)
            m.opt.uri_path = ("obs",)
            m.opt.observe = 0
            m.remote = x.remote(p)
            it = log.start(x, m, blockwise=mode.startswith("bw"))
            holder["it"] = it
            obs = it["req"].observation
            if mode.endswith("cb"):
                obs.register_callback(lambda r: delivered.append((net.loop.time(), "cb", bytes(r.payload), int(r.code))), _suppress_deprecation=True)
                obs.register_errback(lambda e: delivered.append((net.loop.time(), "err", e, None)), _suppress_deprecation=True)
            else:
                async def consume():
                    try:
                        async for r in obs:
                            delivered.append((net.loop.time(), "cb", bytes(r.payload), int(r.code)))
                            if case.get("consumer_delay"):
                                await asyncio.sleep(case["consumer_delay"])
                        delivered.append((net.loop.time(), "end", None, None))
                    except Exception as e:
                        delivered.append((net.loop.time(), "err", e, None))

                holder["consumer"] = net.loop.create_task(consume())

        net.at(1.0, start)
        if case.get("bystander") is not None:
            # a later request to the same server stays outstanding next to the observation (NON: it neither times out
            # nor is retransmitted); a transport error must still end the observation
            from aiocoap import Unreliable

            def start_bystander():
                m = Message(code=GET, transport_tuning=Unreliable)
                m.opt.uri_path = ("bystander",)
                m.remote = x.remote(p)
                holder["bystander"] = log.start(x, m)

            net.at(1.0 + case["bystander"], start_bystander)
            labels.add("bystander-request")
        arrivals = []

        def after(d):
            if d["to"] == "X":
                arrivals.append(d)

        net.after_delivery = after
        icmp_times = []
        total = 1.0 + sum(n["gap"] for n in case["notifications"]) + 200.0
        net.run_until(total)

        # ---------------- reference: RFC 7641 filter over the arrival sequence -----------
        icmp_times = [(e[0], e[4]) for e in net.events if e[1] == "icmp-error"]
        tok = state["token"]
        it = holder.get("it")
        kind0, val0 = ReqLog.outcome(it)
        expected = []  # payloads expected to be handed over, in order
        terminal = None  # ("notobservable"|"cancelled"|"network", t)
        active = False
        v1 = t1 = None
        post_termination = []
        seq = []
        for d in arrivals:
            if d["src"] != P:
                continue
            try:
                f = R.decode(d["data"])
            except R.FormatError:
                continue
            if f["code"] == 0 or (f["code"] >> 5) == 0 or f["token"] != tok:
                continue
            seq.append((d, f))
        events = [(d["t"], d["order"], "msg", d, f) for d, f in seq] + [(t, o, "icmp", None, None) for t, o in icmp_times]
        events.sort(key=lambda e: e[1])
        got_first = False
        n_arrived = 0
        misordered = False
        wrapped = False
        longgap = False
        max_seen = None
        for t, _, kind, d, f in events:
            if kind == "icmp":
                if terminal is None and (got_first and active):
                    terminal = ("network", t)
                    active = False
                elif terminal is None and not got_first:
                    terminal = ("network-before-first", t)
                continue
            obs = R.opt(f, R.O_OBSERVE)
            if not got_first:
                if terminal is not None:
                    post_termination.append((d, f))
                    continue
                got_first = True
                if obs is None or (f["code"] >> 5) != 2:
                    terminal = ("notobservable", t)
                    if obs is not None:
                        terminal = ("first-unsuccessful-with-observe", t)
                else:
                    active = True
                    v1, t1 = obs, t
                    max_seen = obs
                continue
            if not active:
                post_termination.append((d, f))
                continue
            n_arrived += 1
            if obs is None:
                expected.append((f["payload"], f["code"]))
                terminal = ("cancelled", t)
                active = False
                continue
            if obs < v1:
                misordered = True
            if abs(obs - v1) > 2**23:
                wrapped = True
            if t > t1 + 128.0:
                longgap = True
            if fresh(v1, t1, obs, t):
                expected.append((f["payload"], f["code"]))
                v1, t1 = obs, t

        if terminal and terminal[0] == "network-before-first":
            # the transport fails before any response: the request fails with a library error and the observation ends,
            # exactly once, without having delivered anything (which signal it ends with is left open here)
            cbs0 = [d_ for d_ in delivered if d_[1] == "cb"]
            ends0 = [d_ for d_ in delivered if d_[1] in ("err", "end")]
            v0 = []
            if kind0 != "exception" or not isinstance(val0, error.Error):
                v0.append(V("C07/request-outcome-after-early-transport-error", "%s %r" % (kind0, val0)))
            if cbs0:
                v0.append(V("C07/delivery-without-first-response", repr(cbs0[:2])))
            if len(ends0) != 1:
                v0.append(V("C07/terminal-signal-count", "%d terminal signals %r after a transport error before the first response" % (len(ends0), ends0[:3])))
            for t_, msg_, e_, exc_ in net.loop_exceptions:
                v0.append(V("C07/loop-exception/" + type(exc_).__name__, "%s %s" % (msg_, e_)))
            return Outcome(v0, ["terminal-network-before-first", "mode-" + mode], False)
        if terminal and terminal[0] == "first-unsuccessful-with-observe":
            return Outcome([], ["excluded:" + terminal[0]], False)
        if case["first"].get("blocks") and mode.startswith("bw") and kind0 == "exception" and icmp_times:
            # an ICMP error while the block-wise first response was still being fetched fails that fetch: the
            # application never got a first response, there is no observation to speak of
            return Outcome([], ["excluded:first-response-assembly-failed"], False)
        # ---------------- compare ------------------------------------------------------
        cbs = [(pl, code) for (t, k, pl, code) in delivered if k == "cb"]
        ends = [(t, k, e) for (t, k, e, _) in delivered if k in ("err", "end")]
        labels.add("mode-" + mode)
        if case["first"].get("blocks"):
            labels.add("blockwise-first-response")
        labels.add("terminal-" + (terminal[0] if terminal else "none"))
        if kind0 != "result" and terminal and terminal[0] != "network":
            vio.append(V("C07/first-response-not-delivered", "%s %r" % (kind0, val0)))
        lossy = mode != "plain-cb"
        if not lossy:
            if cbs != expected:
                vio.append(V("C07/deliveries-differ-from-rfc7641-filter", "delivered %r\nexpected %r" % (cbs[:12], expected[:12])))
        else:
            # a subsequence, in order, without duplicates; the freshest must get through
            j = 0
            ok = True
            for c in cbs:
                while j < len(expected) and expected[j] != c:
                    j += 1
                if j == len(expected):
                    ok = False
                    break
                j += 1
            if not ok:
                vio.append(V("C07/deliveries-not-a-subsequence-of-rfc7641-filter", "delivered %r\nfilter output %r" % (cbs[:12], expected[:12])))
            elif expected and (not cbs or cbs[-1] != expected[-1]):
                final_is_terminator = terminal is not None and terminal[0] == "cancelled"
                key = "C07/final-response-not-delivered/" + mode if final_is_terminator else "C07/freshest-notification-not-delivered/" + mode
                vio.append(V(key, "delivered %r\nfilter output %r (terminal %r)" % (cbs[-3:], expected[-3:], terminal)))
        # exactly one terminal signal of the right kind
        if terminal is None:
            if ends:
                vio.append(V("C07/spurious-termination", repr(ends[0])))
        else:
            if len(ends) != 1:
                vio.append(V("C07/terminal-signal-count", "%d terminal signals %r (expected %s)" % (len(ends), ends[:3], terminal[0])))
            else:
                t_e, k_e, e = ends[0]
                want = terminal[0]
                if mode.endswith("cb"):
                    good = {
                        "notobservable": isinstance(e, error.NotObservable),
                        "cancelled": isinstance(e, error.ObservationCancelled),
                        "network": isinstance(e, error.NetworkError),
                    }[want]
                else:
                    good = {"notobservable": k_e == "end", "cancelled": k_e == "end", "network": k_e == "err" and isinstance(e, error.NetworkError)}[want]
                if not good:
                    vio.append(V("C07/wrong-terminal-signal/%s-for-%s" % (type(e).__name__ if e is not None else "end", want), repr(e)))
                # nothing is delivered after the terminal signal
                later = [x_ for x_ in delivered if x_[0] > t_e + 1e-9 or (x_[0] == t_e and delivered.index(x_) > delivered.index([y for y in delivered if y[1] in ("err", "end")][0]))]
                if later:
                    vio.append(V("C07/delivery-after-termination", repr(later[:2])))
        # later notifications on that token are rejected like unknown responses
        for d, f in post_termination:
            out = [w for w in net.wire[d["wire_before"] : d["wire_after"]] if w["src"] == X]
            outf = [R.decode(w["data"]) for w in out]
            if f["type"] == R.CON:
                if not (len(outf) == 1 and outf[0]["type"] == R.RST and outf[0]["mid"] == f["mid"]):
                    vio.append(V("C07/late-con-notification-not-reset", "%s -> %s" % (R.describe(f), [R.describe(o) for o in outf])))
            elif outf:
                vio.append(V("C07/late-notification-answered", "%s -> %s" % (R.describe(f), [R.describe(o) for o in outf])))
            labels.add("post-termination-notification")
        for t, msg, e, exc in net.loop_exceptions:
            vio.append(V("C07/loop-exception/" + type(exc).__name__, "%s %s" % (msg, e)))
        if misordered:
            labels.add("misordered")
        if wrapped:
            labels.add("wrap-around")
        if longgap:
            labels.add("gap>128s")
        info = {"trace": net.trace()} if (want_trace or vio) else None
        return Outcome(vio, sorted(labels), misordered or wrapped or longgap, info)
    finally:
        c = holder.get("consumer") if "holder" in dir() else None
        for ep in list(net._contexts):
            try:
                net.shutdown_context(ep)
            except Exception:
                pass
        net.close()


@st.composite
def _case(draw):
    mode = draw(st.sampled_from(MODES))
    first_obs = draw(st.sampled_from([None, 0, 0, 1, 5, 2**23, 2**24 - 2, 2**24 - 1]))
    n = draw(st.integers(0, 12))
    base = draw(st.sampled_from([0, 0, 2**23 - 3, 2**24 - 4]))
    notifs = []
    terminated = False
    for i in range(n):
        kind = draw(st.sampled_from(["notify"] * 12 + ["plain205", "err404", "icmp"]))
        v = draw(st.one_of(st.sampled_from(VALUES), st.integers(0, 12).map(lambda k: (base + k) % 2**24), st.integers(0, 2**24 - 1)))
        notifs.append({"kind": kind, "value": v, "con": draw(st.booleans()), "gap": draw(st.sampled_from(GAPS))})
    fates = draw(st.lists(fate_strategy(delays=[0.001, 0.001, 0.05, 1.0, 2.5], p_drop=1, p_dup=2, p_deliver=6), max_size=10))
    # the request and first response are delivered undisturbed: the case is about notifications
    fates = [["deliver", 0.001], ["deliver", 0.001]] + fates
    case = {"mode": mode, "first": {"observe": first_obs}, "notifications": notifs, "fates": fates, "rng": draw(st.integers(0, 99))}
    if first_obs is not None and draw(st.integers(0, 3)) == 0:
        # block-wise first response: the block-wise layer starts listening to the observation only after fetching it
        case["first"]["blocks"] = draw(st.integers(2, 4))
        case["first"]["block_delay"] = draw(st.sampled_from([0.0, 0.3, 0.7]))
        # the fate list is consumed by whatever is transmitted next, so a drop could hit the block fetch; losing
        # that is C05's subject, here it would only make the first response fail legitimately
        case["fates"] = [f for f in case["fates"] if f[0] != "drop"]
    if draw(st.integers(0, 3)) == 0:
        case["bystander"] = draw(st.sampled_from([0.01, 0.3, 1.7]))  # (after the first response: the first two fates belong to request and first response)
    if mode.endswith("aiter"):
        case["consumer_delay"] = draw(st.sampled_from([0, 0, 0.3, 1.5]))
    return case


def selftest():
    import aiocoap.protocol as proto

    src = proto.Request._run
    case = {"mode": "plain-cb", "first": {"observe": 5}, "notifications": [{"kind": "notify", "value": 4, "con": False, "gap": 1.0}, {"kind": "notify", "value": 6, "con": False, "gap": 1.0}], "fates": [], "rng": 1}
    global fresh
    real = fresh
    fresh = lambda v1, t1, v2, t2: True  # a wrong reference must disagree with the implementation
    try:
        out = run_case(case)
    finally:
        fresh = real
    assert out.violations, "oracle cannot fail"
    assert real(5, 0, 6, 1) and not real(5, 0, 4, 1) and real(5, 0, 4, 129) and real(2**24 - 1, 0, 0, 1) and not real(0, 0, 2**24 - 1, 1)
    assert real(0, 0, 2**23 - 1, 1) and not real(0, 0, 2**23, 1) and real(2**23 + 1, 0, 0, 1) and not real(2**23, 0, 0, 1)


RULE = (
    "An observation request (GET, Observe=0) from a real aiocoap client to a scripted raw server: first response with Observe value from {none, 0, 1, 5, 2^23, 2^24-2, 2^24-1}, "
    "then 0-12 follow-ups (notification with a value from boundary set / consecutive run incl. wrap-around / uniform 24 bit, CON or NON, gaps from {1 ms, .5 s, 1 s, 127 s, 129 s, 300 s}; "
    "or a terminator: 2.05 without Observe, 4.04, ICMP-style error), datagram fates (drop / delay / duplicate => reordering). Four API modes: plain Request and default BlockwiseRequest, "
    "each with callback/errback and with `async for` (consumer delay 0 / 0.3 / 1.5 s). Oracle: an RFC 7641 section 3.4 freshness filter written from the RFC runs over the arrival sequence "
    "(values, virtual arrival times); plain callbacks must equal its output exactly; lossy modes must deliver an in-order subsequence ending with its last element; exactly one terminal signal of "
    "the right kind (NotObservable / final response then ObservationCancelled / NetworkError; end of iteration for `async for`), nothing after it, later notifications on the token get RST (CON) or "
    "silence (NON). Non-trivial = arrival order differs from value order, or a wrap-around (|v2-v1| > 2^23), or a gap > 128 s. Distinct = SHA-1 of the case."
)


def build(tier):
    return CheckSpec(
        [Sub("scenarios", run_case, strategy=_case, budget={"quick": 3000, "thorough": 300000}, max_wall={"quick": 55, "thorough": 3600})],
        RULE,
        assumptions=["OS boundary replaced by vlib.simnet; aiocoap.protocol.time is the virtual clock", "Observe values >= 2^24 are not generated (not encodable in the 3-byte option)", "scenarios whose first response is lost to an ICMP error or is unsuccessful yet carries Observe are excluded"],
        selftest=selftest,
    )
