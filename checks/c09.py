"""C09 -- every request gets exactly one final response, whatever the handler does."""

import asyncio

from hypothesis import strategies as st

from vlib import refcodec as R
from vlib.runner import CheckSpec, Outcome, Sub, V
from vlib.simnet import SimNet

ID = "C09"
LEVEL = "exploration"

A = ("fd00::1", 5683)
PEERS = [("fd00::2", 5683), ("fd00::3", 5683)]
METHODS = {1: "get", 2: "post", 3: "put", 4: "delete", 5: "fetch", 6: "patch", 7: "ipatch"}
RET_CODES = [65, 66, 67, 68, 69, 128, 132, 163]
CRE = ["BadRequest", "Unauthorized", "BadOption", "Forbidden", "NotFound", "MethodNotAllowed", "NotAcceptable", "RequestEntityIncomplete", "Conflict", "PreconditionFailed",
       "RequestEntityTooLarge", "UnsupportedContentFormat", "UnprocessableEntity", "TooManyRequests", "InternalServerError", "NotImplemented", "BadGateway", "ServiceUnavailable",
       "GatewayTimeout", "ProxyingNotSupported", "HopLimitReached"]
CRE_CODES = {"BadRequest": 128, "Unauthorized": 129, "BadOption": 130, "Forbidden": 131, "NotFound": 132, "MethodNotAllowed": 133, "NotAcceptable": 134, "RequestEntityIncomplete": 136,
             "Conflict": 137, "PreconditionFailed": 140, "RequestEntityTooLarge": 141, "UnsupportedContentFormat": 143, "UnprocessableEntity": 150, "TooManyRequests": 157,
             "InternalServerError": 160, "NotImplemented": 161, "BadGateway": 162, "ServiceUnavailable": 163, "GatewayTimeout": 164, "ProxyingNotSupported": 165, "HopLimitReached": 168}
EXCS = ["ValueError", "KeyError", "TimeoutError", "ZeroDivisionError", "AssertionError", "RuntimeError", "UnicodeError", "StopIteration", "OSError"]


def marker(i):
    return "MARKER-%d-zq9x" % i


def make_site(net, reqs):
    import aiocoap
    from aiocoap import error, resource

    class CustomRenderable(error.RenderableError):
        def __init__(self, mode, i):
            self.mode, self.i = mode, i

        def to_message(self):
            if self.mode == "raises":
                raise ValueError(marker(self.i))
            if self.mode == "none":
                return None
            return aiocoap.Message(code=aiocoap.numbers.codes.Code(131), payload=b"custom-%d" % self.i)

    class Res(resource.Resource):
        def __init__(self, i, spec, only_get=False):
            super().__init__()
            self.i, self.spec = i, spec
            if only_get:
                for m in ("post", "put", "delete", "fetch", "patch", "ipatch"):
                    setattr(self, "render_" + m, None)

        async def _go(self, request):
            sp = self.spec
            i = self.i
            net.events.append((net.loop.time(), "handler", i))
            if sp.get("delay"):
                await asyncio.sleep(sp["delay"])
            o = sp["outcome"]
            if o[0] == "msg":
                return aiocoap.Message(code=aiocoap.numbers.codes.Code(o[1]), payload=b"body-%d" % i)
            if o[0] == "msg-nocode":
                return aiocoap.Message(payload=b"body-%d" % i)
            if o[0] == "msg-bad":
                # a Message object that passes every in-memory step but cannot be put on the wire: the failure
                # surfaces as an exception at the bottom of the send path, inside the rendering task
                if o[1] == "strpayload":
                    return aiocoap.Message(code=aiocoap.numbers.codes.Code(69), payload=marker(i))
                m = aiocoap.Message(code=aiocoap.numbers.codes.Code(69), payload=marker(i).encode())
                m.opt.max_age = -1
                return m
            if o[0] == "cre":
                raise getattr(error, o[1])(marker(i))
            if o[0] == "cre-shared":
                # one error *instance* raised by several requests (a stored exception, a shared future that failed)
                raise shared_errors.setdefault(o[1], getattr(error, o[1])("shared-" + o[1]))
            if o[0] == "custom":
                raise CustomRenderable(o[1], i)
            if o[0] == "exc-wrapping":
                # what a gateway lets escape when its upstream answered 4.xx/5.xx: an aiocoap error that is not a
                # renderable one, carrying the *received* upstream response (its text must not leak either)
                from aiocoap.message import Direction

                up = aiocoap.Message(code=aiocoap.numbers.codes.Code(o[1]), payload=marker(i).encode())
                up.direction = Direction.INCOMING
                up.mid = 0x1234
                up.token = b"up"
                raise error.ResponseWrappingError(up)
            if o[0] == "exc":
                import builtins

                if o[1] == "TimeoutError":
                    raise asyncio.TimeoutError(marker(i))
                raise getattr(builtins, o[1])(marker(i))
            if o[0] == "ret":
                return {"none": None, "str": marker(i), "int": 42, "bytes": marker(i).encode(), "tuple": (marker(i),)}[o[1]]
            raise RuntimeError("harness: unknown outcome")

        render_get = render_post = render_put = render_delete = render_fetch = render_patch = render_ipatch = _go

    shared_errors = {}
    site = resource.Site()
    for i, rq in enumerate(reqs):
        if rq["target"] == "resource":
            site.add_resource(["o%d" % i], Res(i, rq))
        elif rq["target"] == "missing-method":
            site.add_resource(["o%d" % i], Res(i, rq, only_get=True))
    return site


def expected(rq, i):
    """-> (code, payload or None (= don't care), bare)"""
    method = rq["method"]
    if rq["target"] in ("unknown-path", "no-site", "root-path"):
        return (132, None, False)
    if method > 7:
        # a code of the request class that no method is assigned to: nothing implements it
        return (133, None, False)
    if rq["target"] == "missing-method" and method != 1:
        return (133, None, False)
    o = rq["outcome"]
    if o[0] == "msg":
        return (o[1], b"body-%d" % i, False)
    if o[0] == "msg-nocode":
        return (69 if method in (1, 5) else 66 if method == 4 else 68, b"body-%d" % i, False)
    if o[0] == "cre":
        return (CRE_CODES[o[1]], marker(i).encode(), False)
    if o[0] == "cre-shared":
        return (CRE_CODES[o[1]], ("shared-" + o[1]).encode(), False)
    if o[0] == "custom":
        if o[1] == "ok":
            return (131, b"custom-%d" % i, False)
        return (160, b"", True)
    return (160, b"", True)


def run_case(case, want_trace=False):
    reqs = case["requests"]
    net = SimNet(rng_seed=case.get("rng", 0))
    net._logger.setLevel(100)
    vio = []
    labels = set()
    try:
        no_site = any(rq["target"] == "no-site" for rq in reqs)
        a = net.add_context("A", *A, site=None if no_site else make_site(net, reqs))

        def peer_handler(peer, t, src, f, raw):
            if f and f["type"] == R.CON and f["code"] != 0 and (f["code"] >> 5) != 0:
                # (possibly late: separate responses to the same peer then queue up behind each other)
                peer.send(src, R.msg(R.ACK, 0, f["mid"]), case.get("peer_ack_delay", 0.0))

        peers = [net.add_raw("p%d" % i, ip, port, handler=peer_handler) for i, (ip, port) in enumerate(PEERS)]

        def send(i):
            rq = reqs[i]
            path = "o%d" % i if rq["target"] != "unknown-path" else "nowhere%d" % i
            options = [(R.O_URI_PATH, path)]
            if rq["target"] == "root-path":
                options = []  # coap://host/ on a site without a root resource: an unknown path like any other
            if rq.get("noresp") is not None:
                options.append((R.O_NO_RESPONSE, rq["noresp"]))
            # options that must not change anything about the outcome: Observe on a resource that is not observable,
            # a Block2 request for block 0 at a size the small bodies fit into, an Accept the handlers ignore
            if rq.get("extra") == "observe":
                options.append((R.O_OBSERVE, 0))
            elif rq.get("extra") == "block2":
                options.append((R.O_BLOCK2, (0, False, 6)))
            elif rq.get("extra") == "accept":
                options.append((R.O_ACCEPT, 0))
            options.sort(key=lambda o: o[0])
            peers[rq["peer"]].send(A, R.msg(R.CON if rq["con"] else R.NON, rq["method"], 0x5000 + i, bytes([0xC0 + i, 0x33]), options))

        for i, rq in enumerate(reqs):
            net.at(1.0 + rq["t"], send, i)
        net.run_until(20.0)

        wire = net.wire_fields()
        from_a = [w for w in wire if w["src"] == A and w["fields"] is not None]
        failing = False
        for i, rq in enumerate(reqs):
            if rq["target"] == "no-site" and not no_site:
                continue
            tok = bytes([0xC0 + i, 0x33])
            resp = []
            for w in from_a:
                f = w["fields"]
                if f["code"] != 0 and f["token"] == tok and w["dst"] == PEERS[rq["peer"]] and f["mid"] not in [r["mid"] for r in resp]:
                    resp.append(f)
            code, payload, bare = expected(rq if not no_site else dict(rq, target="no-site"), i)
            cls = code >> 5
            nr = rq.get("noresp")
            may_suppress = nr is not None and (nr & (1 << (cls - 1))) != 0
            if nr is not None and (rq["target"] == "resource" or (rq["target"] == "missing-method" and rq["method"] == 1)) and rq["outcome"][0] == "msg-bad" and (nr & 2) and not no_site:
                # the handler returned a 2.05: when No-Response asks for 2.xx to be suppressed it is dropped
                # before anything tries to serialise it, which is just as correct as the 5.00
                may_suppress = True
            labels.add("exp-%s" % R.code_str(code))
            if rq["target"] == "resource":
                labels.add("outcome-" + rq["outcome"][0] + ("-slow" if rq.get("delay") else ""))
                if rq["outcome"][0] in ("exc", "exc-wrapping", "ret", "custom", "msg-bad", "cre-shared") or rq["outcome"][0] == "cre":
                    failing = True
            else:
                labels.add(rq["target"])
            if len(resp) == 0:
                if not may_suppress:
                    vio.append(V("C09/no-response", "request %d %r got no response (expected %s)" % (i, rq, R.code_str(code))))
                continue
            if len(resp) > 1:
                vio.append(V("C09/several-responses", "request %d %r got %d: %s" % (i, rq, len(resp), [R.describe(r) for r in resp])))
                continue
            f = resp[0]
            # a response a client can actually match: an ACK only in reply to this CON request, under its message ID
            if f["type"] == R.ACK and not (rq["con"] and f["mid"] == 0x5000 + i):
                vio.append(V("C09/response-in-unrelated-ack", "request %d %r answered by %s" % (i, rq, R.describe(f))))
            elif f["type"] == R.RST:
                vio.append(V("C09/response-in-rst", "request %d %r answered by %s" % (i, rq, R.describe(f))))
            if f["code"] != code:
                vio.append(V("C09/wrong-code/%s-for-%s" % (R.code_str(f["code"]), rq["outcome"][0] if rq["target"] == "resource" else rq["target"]), "request %d %r: got %s expected %s" % (i, rq, R.code_str(f["code"]), R.code_str(code))))
            elif payload is not None and f["payload"] != payload:
                vio.append(V("C09/wrong-payload", "request %d %r: %r != %r" % (i, rq, f["payload"][:60], payload)))
            if bare and (f["payload"] or f["options"]):
                vio.append(V("C09/5.00-not-bare", "request %d %r: %s" % (i, rq, R.describe(f))))
        # no exception text on the wire for non-renderable failures
        for i, rq in enumerate(reqs):
            if rq["target"] == "resource" and (rq["outcome"][0] in ("exc", "exc-wrapping", "ret", "msg-bad") or (rq["outcome"][0] == "custom" and rq["outcome"][1] == "raises")):
                mk = marker(i).encode()
                for w in wire:
                    if w["src"] == A and mk in w["data"]:
                        vio.append(V("C09/exception-text-leaked", "request %d %r: %s" % (i, rq, w["data"][:80])))
                        break
        for t, msg, e, exc in net.loop_exceptions:
            vio.append(V("C09/loop-exception/" + type(exc).__name__, "%s %s" % (msg, e)))
        ts = sorted(rq["t"] for rq in reqs)
        concurrent = len(reqs) >= 2 and any(abs(a_ - b_) < 0.35 for a_, b_ in zip(ts, ts[1:]))
        slow = any(rq.get("delay") for rq in reqs)
        info = {"trace": net.trace()} if (want_trace or vio) else None
        return Outcome(vio, sorted(labels), (failing and concurrent) or slow, info)
    finally:
        for ep in list(net._contexts):
            try:
                net.shutdown_context(ep)
            except Exception:
                pass
        net.close()


_outcome = st.one_of(
    st.tuples(st.just("msg"), st.sampled_from(RET_CODES)).map(list),
    st.just(["msg-nocode"]),
    st.tuples(st.just("cre"), st.sampled_from(CRE)).map(list),
    st.tuples(st.just("custom"), st.sampled_from(["ok", "raises", "none"])).map(list),
    st.tuples(st.just("exc"), st.sampled_from(EXCS)).map(list),
    st.tuples(st.just("ret"), st.sampled_from(["none", "str", "int", "bytes", "tuple"])).map(list),
    st.tuples(st.just("msg-bad"), st.sampled_from(["strpayload", "negmaxage"])).map(list),
    st.tuples(st.just("cre-shared"), st.sampled_from(["NotFound", "BadRequest"])).map(list),
    st.tuples(st.just("cre-shared"), st.sampled_from(["NotFound", "BadRequest"])).map(list),
    st.tuples(st.just("exc-wrapping"), st.sampled_from([132, 160, 163])).map(list),
)


@st.composite
def _case(draw):
    n = draw(st.integers(1, 4))
    no_site = draw(st.integers(0, 9)) == 0
    reqs = []
    for _ in range(n):
        rq = {
            "t": draw(st.sampled_from([0.0, 0.0, 0.001, 0.05, 0.2, 0.31, 2.0])),
            "peer": draw(st.integers(0, 1)),
            "con": draw(st.booleans()),
            "method": draw(st.one_of(st.integers(1, 7), st.integers(1, 7), st.integers(1, 7), st.sampled_from([8, 9, 20, 31]))),
            "target": "no-site" if no_site else draw(st.sampled_from(["resource"] * 6 + ["unknown-path", "missing-method", "root-path"])),
            "outcome": draw(_outcome),
            "delay": draw(st.sampled_from([0, 0, 0.05, 0.3])),
            "noresp": draw(st.sampled_from([None, None, None, 2, 8, 16, 26])),
            "extra": draw(st.sampled_from([None, None, None, "observe", "block2", "accept"])),
        }
        reqs.append(rq)
    return {"requests": reqs, "rng": draw(st.integers(0, 99)), "peer_ack_delay": draw(st.sampled_from([0.0, 0.0, 0.3, 1.0]))}


def selftest():
    import aiocoap.pipe as pipe

    orig = pipe.error_to_message

    def bad(old_pr, log):
        p = orig(old_pr, log)
        return p

    # the oracle must flag a leaking / wrong-code outcome: fabricate by expecting the wrong table
    global expected
    real = expected
    expected = lambda rq, i: (129, None, False)
    try:
        out = run_case({"requests": [{"t": 0.0, "peer": 0, "con": True, "method": 1, "target": "resource", "outcome": ["msg", 69], "delay": 0, "noresp": None}]})
    finally:
        expected = real
    assert out.violations, "oracle cannot fail"


RULE = (
    "1-4 requests (all 7 methods and unassigned request codes 0.08, 0.09, 0.20, 0.31, CON/NON, two raw peers, 0-2 s apart so that they overlap) to a real aiocoap server context whose per-request resource has a generated outcome: "
    "message with one of 8 codes / message without code / each of the 21 ConstructionRenderableError subclasses with a marker text / custom RenderableError whose to_message works, "
    "raises or returns None / 9 builtin exception types carrying a marker / return None, str, int, bytes, tuple; each optionally after 50 or 300 ms (after the empty ACK); also unknown "
    "paths, a resource lacking the method, a context without site, No-Response values. Oracle per request token on the wire: exactly one non-empty response (retransmissions of one MID "
    "counted once; zero allowed only if the request's No-Response mask covers the expected class) whose code equals the table (given code | 2.05/2.02/2.04 default | error's code | 5.00 | "
    "4.04 | 4.05), 5.00 for non-renderable failures is bare (no payload, no options) and the marker occurs in no datagram; every request is judged by its own expectation, so a neighbour's "
    "failure must not show. Non-trivial = a failing outcome with a concurrent neighbour (< 350 ms apart), or a slow outcome. Distinct = SHA-1 of the case."
)


def build(tier):
    return CheckSpec(
        [Sub("scenarios", run_case, strategy=_case, budget={"quick": 3000, "thorough": 300000}, max_wall={"quick": 55, "thorough": 3600})],
        RULE,
        assumptions=["OS boundary replaced by vlib.simnet", "BaseException subclasses (CancelledError, SystemExit) raised by handlers are outside the statement"],
        selftest=selftest,
    )
