"""C18 -- shutdown at any moment: generated busy scenarios x every event boundary of the uninterrupted run."""

import asyncio

from hypothesis import strategies as st

from vlib import refcodec as R
from vlib.runner import CheckSpec, Outcome, Sub, V
from vlib.simnet import ReqLog, SimNet

ID = "C18"
LEVEL = "fault_enumeration"

X = ("fd00::1", 5683)
P = ("fd00::2", 5683)
Y = ("fd00::21", 5683)
Z = ("fd00::22", 5683)
ACTIVITIES = ["await_ack", "await_separate", "blockwise_put", "observe_client", "server_slow", "server_fast", "server_observe", "backlog", "non_request", "blockwise_get", "server_slow_retoken", "server_observe_renew"]


_SITE_CLASSES = None


def _site_classes():
    """the resource classes, created once per process.  (Creating them per run -- hundreds of thousands of classes in a
    thorough run -- made one worker crawl: every isinstance() against aiocoap's ABCs walks and caches all subclasses
    that are still alive, which cost that worker 24 GB and half an hour in a single scenario.)"""
    global _SITE_CLASSES
    if _SITE_CLASSES is not None:
        return _SITE_CLASSES
    import aiocoap
    from aiocoap import resource

    class Slow(resource.Resource):
        def __init__(self, net, name, d):
            super().__init__()
            self.net, self.name, self.d = net, name, d

        async def render_get(self, request):
            net, name = self.net, self.name
            net.events.append((net.loop.time(), "handler-start", name, self.d))
            try:
                await asyncio.sleep(self.d)
            except asyncio.CancelledError:
                net.events.append((net.loop.time(), "handler-cancelled", name, self.d))
                raise
            net.events.append((net.loop.time(), "handler-end", name, self.d))
            return aiocoap.Message(payload=b"slow-%s" % name.encode())

    class Fast(resource.Resource):
        def __init__(self, net, name):
            super().__init__()
            self.net, self.name = net, name

        async def render_get(self, request):
            return aiocoap.Message(payload=b"fast-%s" % self.name.encode())

    class Big(resource.Resource):
        async def render_get(self, request):
            return aiocoap.Message(payload=b"B" * 3000)

    class Obs(resource.ObservableResource):
        def __init__(self, net, name):
            super().__init__()
            self.net, self.name = net, name
            self.n = 0
            self.count = 0
            self.cancelled = 0

        def update_observation_count(self, newcount):
            self.net.events.append((self.net.loop.time(), "obs-count", self.name, newcount))
            self.count = newcount

        async def render_get(self, request):
            return aiocoap.Message(payload=b"state-%d" % self.n)

    _SITE_CLASSES = (Slow, Fast, Big, Obs)
    return _SITE_CLASSES


def make_site(net, name):
    from aiocoap import resource

    Slow, Fast, Big, Obs = _site_classes()
    site = resource.Site()
    site.add_resource(["slow5"], Slow(net, name, 5.0))
    site.add_resource(["slow1"], Slow(net, name, 1.0))
    site.add_resource(["fast"], Fast(net, name))
    site.add_resource(["big"], Big())
    obs = Obs(net, name)
    site.add_resource(["obs"], obs)
    return site, obs


def peer_handler_factory(net):
    def handler(peer, t, src, f, raw):
        if f is None:
            return
        if f["code"] == 0:
            return
        if (f["code"] >> 5) != 0:
            if f["type"] == R.CON:
                peer.send(src, R.msg(R.ACK, 0, f["mid"]))
            return
        path = R.opts(f, R.O_URI_PATH)
        what = path[0] if path else ""
        con = f["type"] == R.CON
        if what == "silent":
            return
        if what == "acksep":
            if con:
                peer.send(src, R.msg(R.ACK, 0, f["mid"]))
            peer.send(src, R.msg(R.NON, R.CONTENT, peer.next_mid(), f["token"], payload=b"late"), 8.0)
        elif what == "blk":
            b1 = R.opt(f, R.O_BLOCK1)
            if b1 is not None and b1[1]:
                peer.send(src, R.msg(R.ACK if con else R.NON, R.CONTINUE, f["mid"] if con else peer.next_mid(), f["token"], [(R.O_BLOCK1, b1)]), 0.3)
            else:
                opts = [(R.O_BLOCK1, b1)] if b1 is not None else []
                peer.send(src, R.msg(R.ACK if con else R.NON, R.CHANGED, f["mid"] if con else peer.next_mid(), f["token"], opts), 0.3)
        elif what == "bigget":
            b2 = R.opt(f, R.O_BLOCK2) or (0, False, 6)
            size = 2 ** (b2[2] + 4)
            body = b"G" * 4000
            chunk = body[b2[0] * size : (b2[0] + 1) * size]
            more = (b2[0] + 1) * size < len(body)
            peer.send(src, R.msg(R.ACK if con else R.NON, R.CONTENT, f["mid"] if con else peer.next_mid(), f["token"], [(R.O_BLOCK2, (b2[0], more, b2[2]))], chunk), 0.25)
        elif what == "obs":
            peer.send(src, R.msg(R.ACK if con else R.NON, R.CONTENT, f["mid"] if con else peer.next_mid(), f["token"], [(R.O_OBSERVE, 1)], b"n1"))
            for k in range(2, 10):
                peer.send(src, R.msg(R.NON, R.CONTENT, peer.next_mid(), f["token"], [(R.O_OBSERVE, k)], b"n%d" % k), (k - 1) * 1.0)
        else:
            peer.send(src, R.msg(R.ACK if con else R.NON, R.CONTENT, f["mid"] if con else peer.next_mid(), f["token"], payload=b"ok"), 0.05)

    return handler


def run_once(scn, shutdown_at, collect_instants=False):
    """one execution; returns (violations, instants, labels)"""
    from aiocoap import GET, PUT, Message, Unreliable, error

    net = SimNet(rng_seed=scn.get("rng", 0))
    net._logger.setLevel(100)
    vio = []
    labels = set()
    try:
        site, obsres = make_site(net, "X")
        x = net.add_context("X", *X, site=site)
        zsite, _ = make_site(net, "Z")
        z = net.add_context("Z", *Z, site=zsite)
        y = net.add_context("Y", *Y)
        p = net.add_raw("P", *P, handler=peer_handler_factory(net))
        log = ReqLog(net)
        obs_log = []  # (name, observation, events list)

        def xreq(path, method=GET, payload=b"", observe=None, blockwise=False, non=False, tag=None):
            m = Message(code=method, payload=payload, transport_tuning=Unreliable() if non else None)
            m.opt.uri_path = (path,)
            if observe is not None:
                m.opt.observe = observe
            m.remote = x.remote(p)
            it = log.start(x, m, tag=tag or path, blockwise=blockwise)
            if observe is not None and it.get("req") is not None and it["req"].observation is not None:
                evs = []
                it["req"].observation.register_callback(lambda r, evs=evs: evs.append((net.loop.time(), "cb", bytes(r.payload))), _suppress_deprecation=True)
                it["req"].observation.register_errback(lambda e, evs=evs: evs.append((net.loop.time(), "err", e)), _suppress_deprecation=True)
                obs_log.append((tag or path, it, evs))
            return it

        acts = scn["acts"]
        for a in acts:
            t = a["t"]
            k = a["kind"]
            if k == "await_ack":
                net.at(t, xreq, "silent")
            elif k == "await_separate":
                net.at(t, xreq, "acksep")
            elif k == "blockwise_put":
                net.at(t, lambda: xreq("blk", PUT, b"U" * a.get("size", 3000), blockwise=True))
            elif k == "blockwise_get":
                net.at(t, lambda: xreq("bigget", GET, blockwise=True))
            elif k == "observe_client":
                net.at(t, lambda a=a: xreq("obs", GET, observe=0, blockwise=a.get("blockwise", False)))
            elif k == "non_request":
                net.at(t, lambda: xreq("silent", non=True))
            elif k == "backlog":
                for j in range(3):
                    net.at(t, xreq, "silent" if j == 0 else "ok%d" % j)
            elif k == "server_slow":
                net.at(t, p.send, X, R.msg(R.CON if a.get("con", True) else R.NON, R.GET, 0x6000 + len(net.wire), b"\xd1", [(R.O_URI_PATH, "slow5")]))
            elif k == "server_slow_retoken":
                # the peer re-uses the token of a request whose handler is still running for a new request (new MID)
                net.at(t, p.send, X, R.msg(R.CON, R.GET, 0x6400 + len(net.wire), b"\xd4", [(R.O_URI_PATH, "slow5")]))
                net.at(t + 0.4, p.send, X, R.msg(R.CON, R.GET, 0x6480 + len(net.wire), b"\xd4", [(R.O_URI_PATH, "slow5")]))
            elif k == "server_observe_renew":
                # RFC 7641: an observation is renewed by a new request with the same token
                net.at(t, p.send, X, R.msg(R.CON, R.GET, 0x6300, b"\xd5", [(R.O_OBSERVE, 0), (R.O_URI_PATH, "obs")]))
                net.at(t + 0.9, p.send, X, R.msg(R.CON, R.GET, 0x6301, b"\xd5", [(R.O_OBSERVE, 0), (R.O_URI_PATH, "obs")]))
            elif k == "server_fast":
                net.at(t, p.send, X, R.msg(R.CON, R.GET, 0x6100 + len(net.wire), b"\xd2", [(R.O_URI_PATH, "fast")]))
            elif k == "server_observe":
                net.at(t, p.send, X, R.msg(R.CON, R.GET, 0x6200, b"\xd3", [(R.O_OBSERVE, 0), (R.O_URI_PATH, "obs")]))

        async def app_trigger():
            while True:
                await asyncio.sleep(0.7)
                obsres.n += 1
                obsres.updated_state()

        trig = {}

        def start_trigger():
            trig["task"] = net.loop.create_task(app_trigger())

        net.at(0.0, start_trigger)

        # independent pair Y -> Z around the shutdown instant
        yz = []

        def yreq():
            m = Message(code=GET)
            m.opt.uri_path = ("slow1",)
            m.remote = y.remote(z)
            yz.append(log.start(y, m, tag="yz"))

        # shutdown_at: virtual time, or [virtual time, k] = k further event-loop iterations into that instant
        # (between the delivery of a datagram and the task steps it wakes up)
        micro = 0
        submit_with_shutdown = False
        if isinstance(shutdown_at, (list, tuple)):
            submit_with_shutdown = len(shutdown_at) > 2 and bool(shutdown_at[2])
            shutdown_at, micro = float(shutdown_at[0]), int(shutdown_at[1])
        T = shutdown_at if shutdown_at is not None else 12.0
        net.at(max(0.0, T - 0.5), yreq)
        net.at(T + 0.2, yreq)

        if shutdown_at is None:
            net.run_until(12.0)
            instants = sorted({round(w["t"], 6) for w in net.wire if w["src"] in (X, P) or w["dst"] in (X, P)} | {round(e[0], 6) for e in net.events if len(e) > 2 and e[2] == "X"})
            return [], instants, labels
        def one_iteration():
            net.loop.call_soon(net.loop.stop)
            net.loop.run_forever()

        if micro >= 0:
            net.run_until(T)
            for _ in range(micro):
                one_iteration()
            if micro:
                labels.add("mid-instant")
        else:
            # the events of instant T (a datagram arriving, a timer firing) happen -micro-1 loop iterations *into*
            # the shutdown: stop just before T, start shutting down, and let T come while that is under way
            net.run_until(max(0.0, T - 0.0005))
            labels.add("event-during-shutdown")
        pending_before = [it for it in log.items if it["ep"] is x and it.get("fut") is not None and not it["fut"].done()]
        running_handlers = len([e for e in net.events if e[1] == "handler-start" and e[2] == "X"]) - len([e for e in net.events if e[1] in ("handler-end", "handler-cancelled") and e[2] == "X"])
        obs_active = [o for o in obs_log if not any(ev[1] == "err" for ev in o[2])]
        srv_obs_before = obsres.count
        if pending_before:
            labels.add("pending-requests")
        if running_handlers:
            labels.add("running-handler")
        if obs_active:
            labels.add("client-observation")
        if srv_obs_before:
            labels.add("server-observation")
        if x.mman._piggyback_opportunities:
            labels.add("pending-empty-ack-timer")
        if x.mman._backlogs and any(v for v in x.mman._backlogs.values()):
            labels.add("backlog")
        if x.mman._recent_messages:
            labels.add("dedup-entries")
        if x.mman._active_exchanges:
            labels.add("active-exchange")
        busy = bool(pending_before or running_handlers or obs_active or srv_obs_before or x.mman._piggyback_opportunities)

        t0 = net.loop.time()
        try:
            if submit_with_shutdown:
                # the application submits a request and awaits shutdown() in the same coroutine step: the request has not
                # even begun to be handed over to the lower layers when the shutdown starts
                labels.add("request-submitted-with-shutdown")

                async def submit_and_shut_down():
                    xreq("ok1", tag="submitted-with-shutdown")
                    await x.ctx.shutdown()

                net.loop.run_until_complete(submit_and_shut_down())
            elif micro >= 0:
                net.shutdown_context(x)
            else:
                sd_task = net.loop.create_task(x.ctx.shutdown())
                for _ in range(-micro - 1):
                    one_iteration()
                net.loop._vtime = max(net.loop._vtime, T)
                net.loop.run_until_complete(sd_task)
        except Exception as e:
            vio.append(V("C18/shutdown-raises/" + type(e).__name__, "shutdown at %.6f raised %r" % (T, e)))
        net._contexts.remove(x)
        dur = net.loop.time() - t0
        if dur > 3.0 + 1e-6:
            vio.append(V("C18/shutdown-too-slow", "shutdown at %.6f took %.3f virtual seconds" % (T, dur)))
        wire_at_return = len(net.wire)
        exc_at_return = len(net.loop_exceptions)
        # client futures and observations are finished with a library error
        for it in log.items:
            if it["ep"] is not x:
                continue
            kind, val = ReqLog.outcome(it)
            if kind == "pending":
                vio.append(V("C18/request-pending-after-shutdown", "shutdown at %.6f: request %r still pending" % (T, it["tag"])))
            elif kind == "exception" and not isinstance(val, error.Error):
                vio.append(V("C18/request-non-library-error/" + type(val).__name__, "shutdown at %.6f: %r -> %r" % (T, it["tag"], val)))
            elif kind in ("cancelled", "raised"):
                vio.append(V("C18/request-" + kind, "shutdown at %.6f: %r %r" % (T, it["tag"], val)))
        for name, it, evs in obs_active:
            errs = [ev for ev in evs if ev[1] == "err"]
            if len(errs) != 1:
                vio.append(V("C18/observation-not-terminated", "shutdown at %.6f: observation %r got %d terminal signals" % (T, name, len(errs))))
            elif not isinstance(errs[0][2], error.Error):
                vio.append(V("C18/observation-non-library-error/" + type(errs[0][2]).__name__, repr(errs[0][2])))
        if running_handlers:
            cancelled = len([e for e in net.events if e[1] == "handler-cancelled" and e[2] == "X" and e[0] >= t0 - 1e-9])
            if cancelled < running_handlers:
                vio.append(V("C18/handler-not-cancelled", "shutdown at %.6f: %d handlers were running, %d saw CancelledError" % (T, running_handlers, cancelled)))
        # requests submitted afterwards fail immediately with the shutdown error
        late = []

        def submit_late(bw):
            m = Message(code=GET)
            m.opt.uri_path = ("late",)
            m.remote = x.remote(p)
            late.append(log.start(x, m, tag="late-bw" if bw else "late", blockwise=bw))

        t_late = net.loop.time()
        net.at(t_late + 0.001, submit_late, False)
        net.at(t_late + 0.001, submit_late, True)
        net.run_until(t_late + 0.05)
        for it in late:
            kind, val = ReqLog.outcome(it)
            if kind != "exception" or not isinstance(val, error.LibraryShutdown):
                vio.append(V("C18/late-request-not-refused", "%s submitted after shutdown: %s %r" % (it["tag"], kind, val)))
        # silence afterwards
        net.run_until(t_late + 400.0)
        if trig.get("task"):
            trig["task"].cancel()
        if x.transport.sends_after_close:
            when, _, data = net.wire_after_close[0]
            try:
                d = R.describe(R.decode(data))
            except R.FormatError:
                d = data.hex()
            vio.append(V("C18/transmission-after-shutdown", "shutdown at %.6f returned at %.6f; at %.6f the context tried to send %s (%d attempts)" % (T, t0 + dur, when, d, x.transport.sends_after_close)))
        sent_later = [w for w in net.wire[wire_at_return:] if w["src"] == X]
        if sent_later:
            vio.append(V("C18/transmission-after-shutdown", "datagram from X at %.6f" % sent_later[0]["t"]))
        for t, msg, e, exc in net.loop_exceptions[exc_at_return:]:
            vio.append(V("C18/loop-exception-after-shutdown/" + type(exc).__name__, "shutdown at %.6f; at %.6f: %s %s" % (T, t, msg, e)))
        for t, msg, e, exc in net.loop_exceptions[:exc_at_return]:
            if t >= t0 - 1e-9:
                vio.append(V("C18/loop-exception-during-shutdown/" + type(exc).__name__, "shutdown at %.6f; at %.6f: %s %s" % (T, t, msg, e)))
        # the independent pair is unaffected
        for it in yz:
            kind, val = ReqLog.outcome(it)
            if kind != "result" or bytes(val.payload) != b"slow-Z":
                vio.append(V("C18/other-context-affected", "shutdown of X at %.6f: Y->Z request ended as %s %r" % (T, kind, val)))
        if obsres.count != 0 and srv_obs_before:
            vio.append(V("C18/server-observation-survives-shutdown", "observer count %d after shutdown at %.6f" % (obsres.count, T)))
        return vio, [], (labels | ({"busy"} if busy else {"idle"}))
    finally:
        for ep in list(net._contexts):
            try:
                net.shutdown_context(ep)
            except Exception:
                pass
        net.close()


def instants_for(scn, cap):
    _, base, _ = run_once(scn, None)
    pts = set()
    for t in base:
        if t < 0.0005:
            continue
        pts.update([round(t - 0.0005, 6), round(t, 6), round(t + 0.0005, 6)])
    srt = sorted(base)
    for a_, b_ in zip(srt, srt[1:]):
        if b_ - a_ > 0.002:
            pts.add(round((a_ + b_) / 2, 6))
    pts = sorted(t for t in pts if t > 0)
    if len(pts) > cap:
        step = len(pts) / cap
        pts = [pts[int(i * step)] for i in range(cap)]
    # ... and inside the instants at which something happens: after 1..6 further loop iterations, i.e. between
    # the arrival of a datagram and the steps of the tasks it wakes (a request "between two messages")
    mid = [[t, k] for t in srt if t > 0 for k in (-1, 1, -2, 2, -3, 3, 4, 5, 6)]
    if len(mid) > cap:
        step = len(mid) / cap
        mid = [mid[int(i * step)] for i in range(cap)]
    # ... and with a request submitted in the very call that starts the shutdown
    sub = [[t, 0, 1] for t in srt if t > 0]
    if len(sub) > max(4, cap // 8):
        step = len(sub) / max(4, cap // 8)
        sub = [sub[int(i * step)] for i in range(max(4, cap // 8))]
    return pts + mid + sub


def run_case(case, want_trace=False):
    scn = case
    if "shutdown_at" in case:
        vio, _, labels = run_once(case, case["shutdown_at"])
        return Outcome(vio, sorted(labels), "busy" in labels, {"evaluations": 1})
    cap = case.get("cap", 60)
    pts = instants_for(scn, cap)
    allv = {}
    labels = set()
    busy = 0
    for t in pts:
        vio, _, lab = run_once(scn, t)
        labels |= lab
        if "busy" in lab:
            busy += 1
        for v in vio:
            allv.setdefault(v.key, v)
    return Outcome(list(allv.values()), sorted(labels), busy >= 1, {"evaluations": len(pts), "shutdown_runs": len(pts), "busy_runs": busy})


@st.composite
def _scenario(draw):
    kinds = draw(st.lists(st.sampled_from(ACTIVITIES), min_size=1, max_size=5))
    acts = []
    for k in kinds:
        a = {"kind": k, "t": draw(st.sampled_from([0.0, 0.0, 0.01, 0.2, 1.0, 2.5]))}
        if k == "server_slow":
            a["con"] = draw(st.booleans())
        if k == "observe_client":
            a["blockwise"] = draw(st.booleans())
        if k == "blockwise_put":
            a["size"] = draw(st.sampled_from([1500, 3000]))
        acts.append(a)
    return {"acts": acts, "rng": draw(st.integers(0, 99)), "cap": 40}


def cases_fixed():
    """every single activity alone and all together, all instants (no cap)"""
    for k in ACTIVITIES:
        yield {"acts": [{"kind": k, "t": 0.0}], "rng": 1, "cap": 400}
    yield {"acts": [{"kind": k, "t": 0.0 if i % 2 == 0 else 0.2} for i, k in enumerate(ACTIVITIES)], "rng": 2, "cap": 400}


def selftest():
    import aiocoap.tokenmanager as tm

    orig = tm.TokenManager.shutdown

    async def bad(self):
        self.outgoing_requests = {}
        return await orig(self)

    tm.TokenManager.shutdown = bad
    try:
        out = run_case({"acts": [{"kind": "await_ack", "t": 0.0}], "rng": 1, "shutdown_at": 1.0})
    finally:
        tm.TokenManager.shutdown = orig
    assert out.violations, "oracle cannot fail"


RULE = (
    "Scenario = 1-5 activities of a real aiocoap context X against a scripted raw peer (CON request awaiting its ACK, awaiting a separate response, NON request, 3 queued CONs, "
    "block-wise PUT and GET in progress, client observation (plain and block-wise API), slow server handler (CON/NON: pending empty-ACK timer, then separate response), fast handler "
    "(fresh dedup entry), server-side observation with an application task triggering updates) plus an independent pair of aiocoap contexts Y->Z. Each scenario is first run "
    "uninterrupted on the virtual clock to collect every instant at which something happened on X's wire or in X's handlers; then it is re-run once per shutdown instant "
    "{t-0.5ms, t, t+0.5ms for every such t, and midpoints} (all of them for the fixed scenarios, evenly thinned to 40 for generated ones). Oracle per run: shutdown() returns within "
    "SHUTDOWN_TIMEOUT; every client future of X is finished with a result or an aiocoap.error.Error and every live observation got exactly one terminal Error; running handlers saw "
    "CancelledError; afterwards X attempts no transmission, the loop exception handler stays silent for 400 s, new requests (plain and block-wise) fail with LibraryShutdown within 50 ms, "
    "the server-side observer count is 0, and Y->Z requests straddling the instant complete normally. evaluations = shutdown runs; non-trivial = scenario with >= 1 run in which X was busy "
    "(pending request, running handler, observation or armed empty-ACK timer) at the instant; distinct = SHA-1 of the scenario."
)


def build(tier):
    return CheckSpec(
        [
            Sub("fixed", run_case, cases=cases_fixed, exhaustive=True, note="each activity alone and all together, shutdown at every collected instant", workers={"quick": 11, "thorough": 11}),
            Sub("generated", run_case, strategy=_scenario, budget={"quick": 240, "thorough": 4000}, max_wall={"quick": 60, "thorough": 1800}, workers={"quick": 12, "thorough": 16}),
        ],
        RULE,
        assumptions=[
            "OS boundary replaced by vlib.simnet; a send attempt on the closed fake transport is counted as a transmission after shutdown (the real transport raises there)",
            "shutdown instants are enumerated exhaustively over the event boundaries of the uninterrupted run of each scenario; scenarios themselves are sampled",
        ],
        selftest=selftest,
    )
