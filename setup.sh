#!/bin/bash
# offline setup: make sure hypothesis is importable in /venv; optional atheris into .deps; run oracle self-tests
cd "$(dirname "$(readlink -f "$0")")" || exit 1
export PIP_NO_INDEX=1
/venv/bin/python -c "import hypothesis" 2>/dev/null || /venv/bin/pip install --no-index --find-links /opt/veriftools/wheels hypothesis >/dev/null 2>&1
/venv/bin/python -c "import hypothesis" || { echo "hypothesis not importable in /venv"; exit 1; }
if [ ! -d .deps/atheris ]; then
  /venv/bin/pip install --no-index --find-links /opt/veriftools/wheels --target .deps atheris >/dev/null 2>&1 || echo "note: atheris not installed (fuzz targets fall back to Hypothesis)"
fi
mkdir -p evidence replays
echo "setup ok"
